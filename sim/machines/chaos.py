"""
chaos machine - C01: no BASIC input ever produces an internal interpreter error.

Statement soup with boundary arguments, stored programs, garbage/torn files to LOAD, typed
input at prompts, interact-mode sessions - under every fault kind the simulator has: host I/O
errors at chosen calls, clock jumps, Break/pause/keys/pen/stick/stream-closed at chosen polls,
small memory, suspend/resume. Sessions are built either with the documented defaults or through
the command-line configuration (config.Settings). Oracle: only error.Exit or a normal return
may leave a Session call. Signature = exception type + innermost pcbasic frame.
"""

import os
import errno

from .. import kernel as K
from ..basicdrv import Driver, ByteSink, EngineCrash, interact, suspend_resume
from .. import simfs
from .common import Run, execute, b, u

NAME = 'chaos'
PROPS = ('C01',)
RULE = ('one evaluation = one session history of direct statements/program lines/API calls with injected faults; '
        'distinct = distinct (statement keyword, fault kinds armed, BASIC error code or none) tuples executed; '
        'non-trivial = the statement reached the engine (no harness short-cut)')
REAL = ['pcbasic.basic (whole package)', 'pcbasic.config.Settings (command-line configuration arm)', 'host tmpfs under the scratch mount']
STUB = ['wall clock', 'user input devices', 'video/audio back ends', 'printers/serial ports (unconfigured)', 'SHELL children (no shell configured)']
ASSUMPTIONS = [
    'no claim of grammar coverage: statements come from templates with boundary arguments; a crash that needs a '
    'specific token combination with no fault or history in it is found only by luck',
]
BATCH = 10

NUMS = ['-32769', '-32768', '-1', '0', '1', '2', '3', '7', '8', '9', '15', '16', '24', '25', '26', '40', '79', '80', '81',
        '127', '128', '255', '256', '257', '319', '320', '639', '640', '1000', '16383', '16384', '32767', '32768', '65535',
        '65536', '1E38', '-1E38', '1.5', '-.5', '1D300', '1E-39', '&HFFFF', '&H8000', '&O177777', '1#', '2!', '3%',
        '1E400', '1D-400', '.1E99999', '1E+65536', '9D+999999999', '&H', '&O8']
STRS = ['""', '"A"', '"ab"', 'CHR$(0)', 'CHR$(255)', 'CHR$(13)', 'CHR$(26)', 'STRING$(255,"x")', 'STRING$(128,0)', '"A:B"', '"C:\\X"',
        '"..\\..\\X"', '".. \\.. \\X"', '"*.*"', '"CON"', '"LPT1:"', '"LPT2:"', '"lpt3:"', '"COM2:"', '"COM1:X"', '"KYBD:"', '"SCRN:"', '"CAS1:"', '"COM1:"', '"@:X"', '"CD:X"', '":X"', '"AB:"', '"@A:"', '"prn"', '"NUL"', '"aux"', '"X.BAS"', '"BAD1.BAS"',
        '"BAD2.BAS"', '"BAD3.BAS"', '"BAD4.BAS"', '"T.DAT"', '"C:"', '"C:\\"', '"\\"', '"."', '".."', '"A=B"', '"PATH"', '"A="',
        '"=B"', '"12:00:00"', '"24:00:00"', '"-1:00:00"', '"1:-1:1"', '"01-01-1980"', '"02-30-2000"', '"13-01-99"', '"1/1/2100"',
        '"ABCDEFGHIJKL.MNOP"', '"#.##"', '"!"', '"\\  \\"', '"&"', '"**$###,.##^^^^"', '"C4D8E"', '"T255L64N84"', '"X"+CHR$(1)+CHR$(2)',
        '"MBO6L1CDEFGAB"', '"U10R10D10L10"', '"TA=X;"', '"BM+10,-10"', '"S255A3"', 'A$', 'B$(1)', 'SPACE$(300)', 'MID$("abc",0)',
        '"A=B"+CHR$(0)+"C"', '"\xe9\xe8"', '" "']
LNS = ['0', '1', '10', '20', '30', '100', '65529', '65530', '65535', '.']

TEMPLATES = [
    'PRINT {n}', 'PRINT {s}', 'PRINT USING {s};{n}', 'PRINT USING {s};{s}', 'PRINT TAB({n});SPC({n});{n}', '?{n},{n};{s}',
    'LOCATE {n},{n}', 'LOCATE {n},{n},{n},{n},{n}', 'LOCATE ,,{n}', 'COLOR {n},{n},{n}', 'COLOR {n}', 'SCREEN {n}', 'SCREEN {n},{n},{n},{n}',
    'SCREEN ,,{n},{n}', 'WIDTH {n}', 'WIDTH {s},{n}', 'WIDTH {n},{n}', 'VIEW PRINT {n} TO {n}', 'VIEW PRINT', 'CLS', 'CLS {n}',
    'KEY {n},{s}', 'KEY ON', 'KEY OFF', 'KEY LIST', 'KEY({n}) ON', 'KEY({n}) STOP',
    'PSET({n},{n}),{n}', 'PRESET({n},{n})', 'LINE({n},{n})-({n},{n}),{n},BF', 'LINE -({n},{n}),,B,{n}', 'CIRCLE({n},{n}),{n},{n},{n},{n},{n}',
    'PAINT({n},{n}),{n},{n}', 'PAINT({n},{n}),{s}', 'DRAW {s}', 'VIEW({n},{n})-({n},{n}),{n},{n}', 'VIEW SCREEN({n},{n})-({n},{n})', 'VIEW',
    'WINDOW({n},{n})-({n},{n})', 'WINDOW SCREEN({n},{n})-({n},{n})', 'WINDOW', 'GET({n},{n})-({n},{n}),G%', 'PUT({n},{n}),G%,XOR',
    'PUT({n},{n}),G%', 'PALETTE {n},{n}', 'PALETTE', 'PALETTE USING G%({n})', 'PCOPY {n},{n}', 'X=POINT({n},{n})', 'X=POINT({n})',
    'X=PMAP({n},{n})', 'X=SCREEN({n},{n})', 'X=SCREEN({n},{n},{n})',
    'DEF SEG={n}', 'DEF SEG', 'POKE {n},{n}', 'X=PEEK({n})', 'CLEAR ,{n}', 'CLEAR ,{n},{n}', 'CLEAR {n}', 'CLEAR ,,,{n}', 'BLOAD {s},{n}', 'BSAVE {s},{n},{n}',
    'X=VARPTR(A$)', 'X$=VARPTR$(X)', 'DIM G%(5),C(2,2):G%(3)={n}:PLAY "MBT="+VARPTR$(G%(3))', 'C(1,1)={n}:PLAY "L="+VARPTR$(C(1,1))+"C"',
    'B$(1)={s}:DRAW "X"+VARPTR$(B$(1))', 'DRAW "S="+VARPTR$(G%(1))', 'X=VARPTR(#{n})', 'X=FRE({n})', 'X=FRE({s})', 'X=USR({n})', 'DEF USR{d}={n}', 'CALL X({n})', 'OUT {n},{n}', 'X=INP({n})',
    'WAIT {n},{n},{n}',
    'SOUND {n},{n}', 'SOUND ON', 'SOUND OFF', 'SOUND {n},{n},{n},{n}', 'PLAY {s}', 'PLAY {s},{s},{s}', 'BEEP', 'BEEP ON', 'NOISE {n},{n},{n}', 'X=PLAY({n})',
    'OPEN {s} FOR OUTPUT AS {f}', 'OPEN {s} FOR INPUT AS {f}', 'OPEN {s} FOR APPEND AS {f}', 'OPEN {s} FOR RANDOM AS {f} LEN={n}', 'OPEN {s} AS {f}',
    'OPEN "R",{f},{s},{n}', 'OPEN "O",#{f},{s}', 'OPEN {s} FOR RANDOM ACCESS READ WRITE LOCK READ WRITE AS {f}', 'OPEN {s} FOR INPUT SHARED AS {f}',
    'CLOSE', 'CLOSE {f}', 'CLOSE #{f},{f}', 'RESET', 'PRINT#{f},{s};{n}', 'PRINT#{f},USING {s};{n}', 'WRITE#{f},{s},{n}', 'INPUT#{f},A$,X', 'LINE INPUT#{f},A$',
    'A$=INPUT$({n},#{f})', 'A$=INPUT$({n})', 'GET #{f},{n}', 'PUT #{f},{n}', 'GET #{f}', 'PUT {f}', 'FIELD #{f},{n} AS A$,{n} AS B$(1)', 'FIELD {f}',
    'LSET A$={s}', 'RSET A$={s}', 'LOCK #{f},{n} TO {n}', 'UNLOCK #{f},{n} TO {n}', 'LOCK #{f}', 'UNLOCK {f}', 'X=LOF({f})', 'X=LOC({f})', 'X=EOF({f})',
    'KILL {s}', 'NAME {s} AS {s}', 'FILES', 'FILES {s}', 'MKDIR {s}', 'RMDIR {s}', 'CHDIR {s}', 'LOAD {s}', 'LOAD {s},R', 'SAVE {s}', 'SAVE {s},A', 'SAVE {s},P',
    'MERGE {s}', 'CHAIN {s}', 'CHAIN MERGE {s},{l},ALL,DELETE {l}-{l}', 'CHAIN {s},{l},ALL', 'RUN {s}', 'RUN {l}', 'RUN', 'IOCTL #{f},{s}', 'A$=IOCTL$({f})',
    'X=ERDEV', 'A$=ERDEV$', 'X=EXTERR({n})', 'WIDTH #{f},{n}', 'LPRINT {s}', 'LLIST', 'LCOPY {n}', 'MOTOR {n}', 'TERM', 'SHELL {s}', 'SHELL', 'SYSTEM',
    'TIME$={s}', 'DATE$={s}', 'PRINT TIME$;DATE$;TIMER', 'ENVIRON {s}', 'A$=ENVIRON$({n})', 'A$=ENVIRON$({s})', 'RANDOMIZE {n}', 'RANDOMIZE', 'X=RND({n})',
    '{l} PRINT {n}', '{l} A$={s}:GOTO {l}', '{l} GOSUB {l}', '{l} RETURN', '{l} FOR I={n} TO {n} STEP {n}:NEXT', '{l} ON ERROR GOTO {l}', '{l} RESUME',
    '{l} RESUME NEXT', '{l} ERROR {n}', '{l} INPUT A$,X', '{l} LINE INPUT "p";A$', '{l} DATA {n},x,"y', '{l} READ A$,X', '{l} DEF FNA(X)=X/{n}',
    '{l} DEF FNB$(X$,Y)=FNB$(X$,Y)', '{l} PRINT FNA({n});FNB$({s},{n})', '{l} ON KEY({n}) GOSUB {l}', '{l} ON TIMER({n}) GOSUB {l}', '{l} KEY({n}) ON',
    '{l} TIMER ON', '{l} WHILE X<{n}:X=X+1:WEND', '{l} IF X THEN {l} ELSE {l}', '{l} ON X GOTO {l},{l}', '{l} COMMON A$,X,B$()', '{l} STOP', '{l} END',
    '{l} A$=INKEY$:IF A$="" THEN {l}', '{l} PLAY "MB"+{s}', '{l} OPTION BASE {n}', '{l} DIM B$({n}),G%({n},{n})', '{l}', '{l} REM \x81\x82', "{l} '",
    'LIST', 'LIST {l}-{l}', 'LIST ,{s}', 'LIST {l}-', 'DELETE {l}-{l}', 'DELETE {l}', 'DELETE -{l}', 'RENUM', 'RENUM {l},{l},{n}', 'RENUM {n}', 'NEW',
    'AUTO {l},{n}', 'EDIT {l}', 'CONT', 'STOP', 'END', 'GOTO {l}', 'GOSUB {l}', 'RETURN', 'RETURN {l}', 'ON ERROR GOTO {l}', 'ON ERROR GOTO 0', 'RESUME',
    'RESUME {l}', 'ERROR {n}', 'FOR I={n} TO {n}:NEXT', 'NEXT', 'WEND', 'WHILE {n}:WEND', 'TRON', 'TROFF', 'OPTION BASE {n}', 'DIM A({n})', 'DIM C({n},{n},{n})',
    'ERASE A', 'ERASE G%', 'SWAP A$,B$(1)', 'SWAP X,A$', 'DEFINT A-Z', 'DEFSTR {n}', 'DEFDBL A-{s}', 'MID$(A$,{n},{n})={s}', 'A$={s}+{s}', 'B$({n})={s}', 'X={n}/{n}',
    'X={n}\\{n}', 'X={n} MOD {n}', 'X={n}^{n}', 'X%={n}', 'X#={n}*{n}', 'INPUT A$', 'INPUT "p",X,A$', 'LINE INPUT A$', 'READ X', 'RESTORE {l}', 'DATA 1',
    'X=ABS({n})+ATN({n})+CDBL({n})+COS({n})', 'X=CINT({n})', 'X=CSNG({n})+EXP({n})', 'X=FIX({n})+INT({n})+LOG({n})', 'X=SGN({n})+SIN({n})+SQR({n})+TAN({n})',
    'A$=CHR$({n})', 'A$=LEFT$({s},{n})', 'A$=RIGHT$({s},{n})', 'A$=MID$({s},{n},{n})', 'A$=STRING$({n},{n})', 'A$=STRING$({n},{s})', 'A$=SPACE$({n})',
    'A$=HEX$({n})+OCT$({n})+STR$({n})', 'X=VAL({s})', 'X=ASC({s})', 'X=INSTR({n},{s},{s})', 'X=LEN({s})', 'X=CVI({s})+CVS({s})+CVD({s})',
    'A$=MKI$({n})+MKS$({n})+MKD$({n})', 'X=PEN({n})', 'X=STICK({n})', 'X=STRIG({n})', 'STRIG ON', 'PEN ON', 'PEN OFF', 'X=POS({n})+CSRLIN', 'X=LPOS({n})',
    'X=ERR+ERL', 'A$=DATE$+TIME$', 'X=TIMER', 'A$=INKEY$', 'GET #{f},{n}:PRINT A$', 'DEF FNA(X)=X', 'COMMON A', '\xfd\x81\xff\xe0', '{n}{n}{n}', ':::::', '?' + '"x";' * 60,
    'PRINT "' + 'y' * 250 + '"', 'IF {n} THEN PRINT {s} ELSE {l}', 'ON {n} GOTO {l}', 'ON {n} GOSUB {l},{l}', 'LSET B$(1)={s}', 'PRINT #{f},{s}', 'PRINT FRE(0);FRE("")',
]

ERRNOS = [errno.EIO, errno.EACCES, errno.ENOENT, errno.ENOSPC, errno.EROFS, errno.ENXIO, errno.EBUSY, errno.EEXIST,
          errno.ENOTEMPTY, errno.EISDIR, errno.ENOTDIR, errno.EPERM, errno.EMFILE, errno.ENAMETOOLONG, errno.EINVAL]
IOKINDS = ['open', 'read', 'write', 'close', 'flush', 'seek', 'truncate', 'listdir', 'stat', 'remove', 'rename', 'mkdir', 'rmdir', 'statvfs']


def quick_runs(prop):
    return 2400


def _fill(rng, t):
    out = []
    i = 0
    while i < len(t):
        if t[i] == '{' and i + 2 < len(t) and t[i + 2] == '}':
            c = t[i + 1]
            if c == 'n':
                out.append(rng.choice(NUMS))
            elif c == 's':
                out.append(rng.choice(STRS))
            elif c == 'l':
                out.append(rng.choice(LNS))
            elif c == 'f':
                out.append(rng.choice(['0', '1', '1', '2', '3', '4', '15', '16', '255', '256']))
            elif c == 'd':
                out.append(rng.choice('0159'))
            else:
                out.append(t[i:i + 3])
            i += 3
        else:
            out.append(t[i])
            i += 1
    return ''.join(out)


# short device scenarios: a fault is armed right before a statement that has the matching host call in flight
SCENARIOS = [
    (['OPEN "T.DAT" FOR OUTPUT AS 1', 'PRINT#1,"abc";1.5', 'WRITE#1,"q",2', 'PRINT#1,USING "##.#";3', 'CLOSE 1'], ['write', 'close', 'flush', 'open']),
    (['OPEN "T.DAT" FOR OUTPUT AS 1:PRINT#1,"l1":PRINT#1,"l2":CLOSE', 'OPEN "T.DAT" FOR INPUT AS 1', 'INPUT#1,A$', 'LINE INPUT#1,A$',
      'A$=INPUT$(2,#1)', 'X=EOF(1)+LOF(1)+LOC(1)', 'CLOSE'], ['read', 'open', 'seek', 'close', 'stat']),
    (['OPEN "T.DAT" FOR APPEND AS 2', 'PRINT#2,"more"', 'CLOSE 2'], ['open', 'read', 'seek', 'truncate', 'write', 'close', 'stat']),
    (['OPEN "R.DAT" FOR RANDOM AS 1 LEN=16', 'FIELD#1,8 AS A$,8 AS B$(1)', 'LSET A$="x":PUT#1,3', 'GET#1,1', 'PUT#1', 'X=LOF(1)', 'CLOSE'],
     ['write', 'read', 'seek', 'open', 'close', 'stat', 'flush']),
    (['10 PRINT "p":A$="s"', 'SAVE "X"', 'SAVE "X",A', 'SAVE "X",P', 'LIST ,"L.TXT"', 'BSAVE "M.BIN",0,100'], ['open', 'write', 'close', 'stat', 'listdir']),
    (['10 PRINT "p"', 'SAVE "X",A', 'LOAD "X"', 'MERGE "X"', 'SAVE "Y"', 'LOAD "Y"', 'RUN "Y"', '20 CHAIN "X"', 'RUN', 'BLOAD "M.BIN",0'],
     ['open', 'read', 'seek', 'close', 'stat', 'listdir']),
    (['FILES', 'FILES "*.BAS"', 'MKDIR "D1"', 'CHDIR "D1"', 'FILES "..\\*.*"', 'CHDIR ".."', 'RMDIR "D1"', 'NAME "X.BAS" AS "Z.BAS"', 'KILL "Z.BAS"', 'KILL "*.DAT"'],
     ['listdir', 'stat', 'statvfs', 'mkdir', 'rmdir', 'rename', 'remove']),
    (['OPEN "CAS1:T" FOR OUTPUT AS 1', 'PRINT#1,STRING$(200,"c")', 'CLOSE', 'SAVE "CAS1:P"', 'LOAD "CAS1:P"', 'OPEN "CAS1:T" FOR INPUT AS 1', 'LINE INPUT#1,A$', 'CLOSE'],
     ['write', 'read', 'seek', 'open', 'close', 'flush']),
    # a printer that fails: its buffer is flushed when a program returns to direct mode, on Break and on closing
    (['NEW', '10 LPRINT "x";:LPRINT 1', '20 FOR I=1 TO 300:NEXT', '@break', 'RUN', 'LPRINT "y"', 'RUN', 'LLIST',
      'OPEN "LPT1:" FOR OUTPUT AS 1', 'PRINT#1,"z"', 'CLOSE', 'LPRINT "w"', '@close'], ['flush', 'write', 'flush', 'close']),
]


# short program histories around traps, breaks and stale state (no host fault needed)
PSCEN = [
    ['NEW', '10 ON ERROR GOTO 100', '20 END', '100 STOP', '110 RESUME NEXT', 'RUN', 'ERROR {n}', 'CONT', 'X=1/0', 'CONT', 'PRINT 1'],
    ['NEW', '10 ON ERROR GOTO 100', '20 END', '100 A$=INKEY$:IF A$="" THEN 100', '110 RESUME NEXT', 'RUN', '@break', 'ERROR 5', 'CONT', 'LIST'],
    ['NEW', '10 ON KEY(1) GOSUB 100:KEY(1) ON:ON ERROR GOTO 200', '20 FOR I=1 TO 50:NEXT', '30 END', '100 ERROR {n}', '110 RETURN', '200 RESUME NEXT', '@fkey', 'RUN', 'GOTO 20'],
    ['NEW', '10 GOSUB 100', '20 PRINT 1:END', '100 STOP', '110 RETURN', 'RUN', 'CLEAR', 'RETURN', 'CONT', '100', 'CONT', 'RUN', 'DELETE 100', 'CONT'],
    ['NEW', '10 PRINT "a":X=)', 'RUN', '10 A=1', '@interact', 'RUN', 'RENUM 5', 'EDIT 5', '@interact'],
    ['NEW', '10 DEF FNA(X)=X+FNB(X):DEF FNB(X)=FNA(X)', '20 PRINT FNA({n})', 'RUN', 'PRINT FNA(1)', 'PRINT FNB({s})', 'X=FNC(1)'],
    ['NEW', '10 OPEN "R.DAT" FOR RANDOM AS 1 LEN=8:FIELD#1,8 AS A$', '20 LSET A$="x":PUT#1,1', 'RUN', '@checkpoint', 'PRINT#1,"y":PUT#1,2:GET#1,1', 'CLOSE'],
    ['NEW', '10 WHILE X<3:X=X+1:GOSUB 100:WEND', '20 END', '100 FOR I=1 TO 2:NEXT:RETURN {l}', 'RUN', 'WEND', 'NEXT', 'RETURN'],
    # a syntax error leaves an edit prompt pending for a line that is then deleted, replaced or lost
    ['NEW', '10 PRINT "a":X=)', '20 PRINT 2', 'RUN', 'DELETE 10', '@interact', 'RUN', '20 X=(', 'RUN', 'NEW', '@interact'],
    # damaged program files: load, then everything that walks the program
    ['LOAD "BAD1.BAS"', 'LIST', 'SAVE "Z9",A', 'LLIST', 'RENUM', 'RUN', 'EDIT 10', '@interact'],
    ['LOAD "BAD3.BAS"', 'LIST', 'DELETE 10', 'SAVE "Z9",A', 'MERGE "BAD2.BAS"', 'LIST', 'CHAIN "BAD4.BAS"'],
    ['LOAD "BAD2.BAS"', 'DELETE 20', 'LIST', '15 REM x', 'LIST', 'DELETE 10-25', 'RENUM', 'LIST', 'RUN', 'EDIT 30', '@interact'],
    ['LOAD "BAD4.BAS"', 'DELETE 10', 'LIST', 'DELETE 30', 'LIST 20-', '5 REM', 'LIST', 'SAVE "Z8"', 'LOAD "Z8"', 'LIST'],
    ['CHAIN "BAD4.BAS"', '30 PRINT 1', '10 PRINT 2', '5 REM', 'LIST', '@interact', 'CHAIN "BAD1.BAS"', '@interact', 'RUN "BAD3.BAS"', '@interact'],
    # devices that cannot do what the open mode promises
    ['OPEN "NUL" FOR INPUT AS 1', 'INPUT#1,A$', 'LINE INPUT#1,A$', 'A$=INPUT$(1,#1)', 'X=EOF(1)+LOF(1)', 'CLOSE',
     'OPEN "CON" FOR RANDOM AS 1 LEN=25', 'INPUT#1,A$', 'LINE INPUT#1,A$', 'GET#1', 'PUT#1', 'FIELD#1,2 AS F$', 'CLOSE',
     'OPEN "SCRN:" FOR RANDOM AS 2', 'INPUT#2,A$', 'CLOSE', 'OPEN "KYBD:" FOR INPUT AS 1', 'PRINT#1,"x"', 'WRITE#1,1', 'CLOSE'],
    # coordinate mappings with bounds at the edge of the number range
    ['SCREEN {n}', 'WINDOW({n},1E38)-({n},{n})', 'X=PMAP(16383,3%)', 'X=PMAP({n},0)', 'X=PMAP({n},1)', 'X=PMAP({n},2)',
     'WINDOW SCREEN(-1E38,-1E38)-(1E38,1E38)', 'X=PMAP(1,3)', 'PSET(1E38,1E38)', 'VIEW({n},{n})-({n},{n})', 'X=PMAP({n},{n})', 'WINDOW'],
    # video memory sizes (Tandy/PCjr syntax) followed by mode changes
    ['CLEAR ,,,{n}', 'SCREEN {n}', 'CLEAR ,,,9D+999999999', 'SCREEN 7', 'CLEAR ,,,1E38', 'SCREEN 1', 'CLEAR ,,,-1', 'SCREEN 5', 'CLEAR ,,,32768', 'SCREEN 6'],
    # an error far into a line that takes several screen rows, then the edit prompt
    ['WIDTH 40', '10 PRINT "aaaaaaaaaaaaaaaaaaaaaaaaaaaaaaaaaaaaaaaaaaaaaaaaaaaaaaaaaaaaaaaaaaaaaaaaaaaaaaaaaaaaaaaaaaaaaaaaaaaaaaaaaaaaaa":X=)', 'RUN',
     '@interact', '10 PRINT "bbbbbbbbbbbbbbbbbbbbbbbbbbbbbbbbbbbbbbbbbbbb":X=):PRINT "ccccccccccccccccccccccccccccccccccccccccccccccccccccccccccccccccccccccccccccccccccccccccccccccccccccccccccccccccccccccccccccccccccccccccccccc"',
     'RUN', '@interact', 'WIDTH 80', 'RUN', '@interact', '10 X=1:Y=2:Z=(((((((((((((((((((((((((((((((((((((((((((((((((((((((((((((((((((1):A=)', 'WIDTH 40', 'RUN', '@interact'],
    # loop counters that overflow
    ['FOR I=1E38 TO 1.7E38 STEP 1E38:NEXT', 'FOR D#=1D38 TO 1.7D38 STEP 1.7D38:NEXT', 'FOR I%=32000 TO 32767 STEP 700:NEXT',
     'FOR I={n} TO {n} STEP {n}:NEXT', '10 ON ERROR GOTO 40', '20 FOR I=-1E38 TO -1.7E38 STEP -1E38:NEXT:PRINT "a"', '30 END', '40 RESUME NEXT', 'RUN'],
    # every byte of the BIOS data area, in whatever video mode we are in
    ['SCREEN {n}', 'DEF SEG=0:FOR A=1024 TO 1300:X=PEEK(A):NEXT', 'FOR A=0 TO 130:X=PEEK(A):NEXT', 'WIDTH {n}',
     'FOR A=1024 TO 1300:X=PEEK(A):NEXT', 'DEF SEG'],
    # memory blocks at the edges of the address space
    ['DEF SEG=&HFFFF', 'BSAVE "M.BIN",0,100', 'BLOAD "M.BIN",0', 'DEF SEG={n}', 'BSAVE "M.BIN",{n},{n}', 'BLOAD "M.BIN",{n}', 'BLOAD "M.BIN"', 'DEF SEG'],
    # sound that never ends by itself, across a restart and a checkpoint
    ['SOUND 440,65535', '@restart', 'SOUND {n},65535', '@restart', 'SOUND 440,65535:SOUND 0,0', 'PLAY "MBL1CDE"', '@checkpoint', '@restart', 'X=PLAY(0)', 'SOUND 37,0'],
    # palette and pointer statements into arrays with odd subscripts
    ['SCREEN {n}', 'DIM G%(10),H$(3),Q#(2,2)', 'PALETTE USING G%({n})', 'PALETTE USING G%(-1)', 'PALETTE USING G%(&H8000)',
     'H$(1)="L8CDE":PLAY "X"+VARPTR$(H$(1))', 'DRAW "X"+VARPTR$(H$(2))', 'Q#(1,1)=3:PLAY "L="+VARPTR$(Q#(1,1))', 'ERASE H$:PLAY "X"+VARPTR$(H$(1))'],
]


def _pscen(rng):
    out = []
    for st in rng.choice(PSCEN):
        if st == '@break':
            out.append({'op': 'sig', 'what': 'break', 'poll': rng.randint(1, 6), 'text': ''})
        elif st == '@fkey':
            out.append({'op': 'sig', 'what': 'fkey', 'poll': rng.randint(1, 30), 'text': ''})
        elif st == '@interact':
            out.append({'op': 'interact', 'lines': [_fill(rng, rng.choice(TEMPLATES))]})
        elif st == '@checkpoint':
            out.append({'op': 'checkpoint'})
        elif st == '@restart':
            out.append({'op': 'restart'})
        else:
            out.append({'op': 'exec', 'line': _fill(rng, st)})
    return out


def _scenario(rng):
    stmts, kinds = rng.choice(SCENARIOS)
    out = []
    k = rng.randrange(len(stmts))
    for i, st in enumerate(stmts):
        if i == k or rng.random() < 0.15:
            out.append({'op': 'io', 'kind': rng.choice(kinds), 'nth': rng.choice([1, 1, 1, 2, 3, 5]), 'errno': rng.choice(ERRNOS),
                        'repeat': rng.choice([1, 1, 2, 50]), 'torn': rng.choice([None, None, None, 0, 1, 3])})
        if st == '@break':
            out.append({'op': 'sig', 'what': 'break', 'poll': rng.randint(1, 8), 'text': ''})
        elif st == '@close':
            out.append({'op': 'close'})
        else:
            out.append({'op': 'exec', 'line': st})
    return out


def gen(rng, tier, prop):
    n = rng.randint(8, 45 if tier == 'quick' else 200)
    faulty = rng.random() < 0.6
    ops = []
    for k, kind in enumerate(['empty', 'ff', 'fe', 'fe1', 'fc', 'text', 'torn', 'cutnum', 'unordered']):
        if rng.random() < 0.5:
            ops.append({'op': 'mkfile', 'name': 'BAD%d.BAS' % (rng.randint(1, 4)), 'kind': kind,
                        'bytes': ''.join(chr(rng.randrange(256)) for _ in range(rng.choice([0, 1, 2, 3, 17, 200])))})
    for _ in range(n):
        r = rng.random()
        if faulty and rng.random() < 0.10:
            ops.extend(_scenario(rng))
            continue
        if rng.random() < 0.07:
            ops.extend(_pscen(rng))
            continue
        if r < 0.70 or not faulty:
            if rng.random() < 0.12:
                line = ':'.join(_fill(rng, rng.choice(TEMPLATES)) for _ in range(rng.randint(2, 3)))
            else:
                line = _fill(rng, rng.choice(TEMPLATES))
            ops.append({'op': 'exec', 'line': line})
        elif r < 0.80:
            ops.append({'op': 'io', 'kind': rng.choice(IOKINDS), 'nth': rng.randint(1, 4), 'errno': rng.choice(ERRNOS),
                        'repeat': rng.choice([1, 1, 2, 50]), 'torn': rng.choice([None, None, 0, 1, 3])})
        elif r < 0.86:
            ops.append({'op': 'sig', 'what': rng.choice(['break', 'pause', 'keys', 'pen', 'stick', 'closed', 'fkey', 'ctrlaltdel-ish']),
                        'poll': rng.randint(1, 12), 'text': rng.choice(['a', 'RUN\r', '1,2\r', '\x1b', '\x00\x48\x00\x50', 'xyz' * 8])})
        elif r < 0.90:
            ops.append({'op': 'clock', 'jump': rng.choice([-86400, -3600, -1, 1, 59, 3600, 86399, 86400 * 365, -86400 * 365 * 40])})
        elif r < 0.93:
            ops.append({'op': 'api', 'call': rng.choice(['evaluate', 'get', 'set', 'chars', 'pixels', 'convert']),
                        'arg': rng.choice(['1/0', 'A$+', 'FRE(0)', 'B$(99)', '"x"+', ')', 'PEEK(-1)', 'X', 'A$', 'G%(1)', 'Q#']),
                        'value': rng.choice([0, -1, 65536, 1e39, 'x' * 300, 'ab', [1, 2, 3], [[1, 2], [3, 4]], None, True])})
        elif r < 0.935:
            ops.append({'op': 'api', 'call': 'bind', 'arg': '', 'value': None, 'stmts': rng.sample([
                'OPEN "R",1,"@N",32', 'FIELD 1,8 AS F$:LSET F$="x":PUT 1,2:GET 1,1', 'OPEN "@N" FOR OUTPUT AS 2', 'PRINT#2,"a"',
                'OPEN "@N" FOR INPUT AS 3:LINE INPUT#3,A$', 'OPEN "@N" FOR APPEND AS 1', 'CLOSE', 'SAVE "@N"', 'LOAD "@N"',
                'BSAVE "@N",0,10', 'BLOAD "@N"', 'KILL "@N"', 'NAME "@N" AS "Q"', 'FILES "@:"', 'LOCK 1:UNLOCK 1', 'X=LOF(1)+LOC(1)'],
                rng.randint(2, 6))})
        elif r < 0.95:
            ops.append({'op': 'restart'})
        elif r < 0.965:
            ops.append({'op': 'checkpoint'})
        else:
            ops.append({'op': 'interact', 'lines': [_fill(rng, rng.choice(TEMPLATES)) for _ in range(rng.randint(1, 4))]})
    cfg = {
        'arm': rng.choice(['api-defaults', 'api-defaults', 'api-swarm', 'cli']),
        'session': {
            'syntax': rng.choice(['advanced', 'pcjr', 'tandy']),
            'video': rng.choice(['cga', 'ega', 'vga', 'mda', 'hercules', 'olivetti', 'pcjr', 'tandy', 'ega_mono', 'ega_64k']),
            'max_memory': rng.choice([65534, 65534, 8192, 4500, 4000]),
            'max_files': rng.choice([1, 3, 6]), 'max_reclen': rng.choice([1, 128, 255]),
            'text_width': rng.choice([40, 80]), 'double': rng.random() < 0.3,
            'soft_linefeed': rng.random() < 0.2, 'hide_protected': rng.random() < 0.3,
            'ctrl_c_is_break': rng.random() < 0.8, 'check_keybuffer_full': rng.random() < 0.8,
            'allow_code_poke': rng.random() < 0.3,
        },
        'world': {'sleep0_us': rng.choice([0, 50, 2000]), 'trap_order': rng.randint(0, 3),
                  'start_us': K.DEFAULT_START_US + rng.choice([0, 50000, 13 * 3600 + 59 * 60 + 58]) * 1000000},
    }
    return {'machine': NAME, 'prop': prop, 'cfg': cfg, 'ops': ops}


def simplify(cfg, ops):
    if cfg['arm'] != 'api-defaults':
        yield dict(cfg, arm='api-defaults'), ops
    for i, op in enumerate(ops):
        if op['op'] == 'exec' and ':' in op['line'] and not op['line'][:1].isdigit():
            for part in op['line'].split(':'):
                if part:
                    yield cfg, ops[:i] + [dict(op, line=part)] + ops[i + 1:]


def _keyword(line):
    s = line.lstrip('0123456789. ')
    w = ''
    for ch in s:
        if ch.isalpha() or ch == '$':
            w += ch
        else:
            break
    return (w or s[:1]).upper()[:8]


def _session_kwargs(cfg, root):
    arm = cfg['arm']
    mount = os.path.join(root, 'c')
    os.makedirs(mount, exist_ok=True)
    if arm == 'api-defaults':
        # documented defaults; only the mount is given (the default would mount the cwd)
        return {'devices': {'C:': mount}, 'current_device': 'C:'}
    if arm == 'api-swarm':
        kw = dict(cfg['session'])
        kw.update({'devices': {'C:': mount, 'CAS1:': 'CAS:' + os.path.join(root, 'tape.cas'),
                               'LPT1:': 'FILE:' + os.path.join(root, 'lpt1.txt')}, 'current_device': 'C:'})
        return kw
    # command-line configuration
    from pcbasic import config
    s = cfg['session']
    args = [
        '--mount=C:' + mount, '--current-device=C', '--syntax=' + s['syntax'], '--video=' + s['video'], '--lpt1=FILE:' + os.path.join(root, 'lpt1.txt'),
        '--max-memory=%d' % s['max_memory'], '--max-files=%d' % s['max_files'], '--max-reclen=%d' % s['max_reclen'],
        '--text-width=%d' % s['text_width'], '--double=%s' % s['double'], '--soft-linefeed=%s' % s['soft_linefeed'],
        '--hide-protected=%s' % s['hide_protected'], '--ctrl-c-break=%s' % s['ctrl_c_is_break'], '--interface=none',
    ]
    settings = config.Settings(os.path.join(root, 'tmp'), args)
    kw = dict(settings.session_params)
    kw['input_streams'] = None
    kw['output_streams'] = None
    # never mount anything but the scratch tree
    kw['devices'] = {k: v for k, v in kw['devices'].items() if not (len(k) == 2 and k[1:] == ':' and k.upper() not in ('C:',))}
    return kw


def _mkfile(root, op):
    mount = os.path.join(root, 'c')
    os.makedirs(mount, exist_ok=True)
    data = b(op['bytes'])
    kind = op['kind']
    if kind == 'empty':
        data = b''
    elif kind == 'ff':
        data = b'\xff' + data
    elif kind == 'fe':
        data = b'\xfe' + data
    elif kind == 'fe1':
        data = b'\xfe' + data[:1]
    elif kind == 'fc':
        data = b'\xfc' + data
    elif kind == 'text':
        data = b'10 PRINT 1\r\nPRINT 2\r\n70000 X\r\n20 ' + data.replace(b'\r', b'').replace(b'\n', b'') + b'\r\n\x1a'
    elif kind == 'torn':
        data = b'\xff\x7a\x12\x0a\x00\x91\x20\x22' + data
    elif kind == 'unordered':
        # a well-formed tokenised program whose line numbers are not in order (a hand-made file)
        import struct as _st
        nums = [[30, 10, 20], [10, 30, 20, 25], [65529, 5, 5], [20, 10]][len(data) % 4]
        body, addr = b'', 0x1234
        for n in nums:
            ln = b'\x91 "L%d"' % n
            addr += 5 + len(ln)
            body += _st.pack('<HH', addr, n) + ln + b'\0'
        data = b'\xff' + body + b'\0\0\x1a'
    elif kind == 'cutnum':
        # a tokenised program cut off in the middle of a number token
        lead = [b'\x1c\x01', b'\x1d\x00\x00', b'\x1f\x00\x00\x00', b'\x0f', b'\x0e\x10', b'\x0b', b'\x0c\x01', b'\x1c'][len(data) % 8]
        data = b'\xff\x7a\x12\x0a\x00\x91\x20' + lead
    with open(os.path.join(mount, op['name']), 'wb') as f:
        f.write(data)


def run(case):
    simfs.install_fs_seams()

    def body(run):
        cfg = case['cfg']
        w = run.w
        root = run.make_scratch()
        fs = simfs.SimFS(w, [root], guard_root=root)
        os.makedirs(os.path.join(root, 'tmp'), exist_ok=True)
        armed = []
        pending_sigs = []
        state = {'op_polls': 0}

        def feeder(wd):
            """Keeps blocking statements moving: scheduled signals, then typed answers, then Break."""
            state['op_polls'] += 1
            n = state['op_polls']
            for item in list(pending_sigs):
                if item[0] <= n:
                    pending_sigs.remove(item)
                    for sig in item[1]:
                        wd.inputs.pending.append(sig)
            if n in (40, 80, 120, 160):
                wd.inputs.pending.append(K.sig_stream(u'1\r'))
            elif n in (300, 500, 700):
                wd.inputs.pending.append(K.sig_break())
                wd.inputs.pending.append(K.sig_stream(u'\r'))

        def new_driver():
            kw = _session_kwargs(cfg, root)
            return Driver(w, **kw)

        with w:
            w.poll_hook = feeder
            d = new_driver()
            from pcbasic.basic.base import error
            for op in case['ops']:
                k = op['op']
                state['op_polls'] = 0
                try:
                    if k == 'exec':
                        line = op['line']
                        fs.monitor = False
                        r = d.exec(b(line), poll_cap=2500)
                        run.state(_keyword(line), tuple(sorted(set(a for a in armed))), r.err)
                        del armed[:]
                        fs.disarm()
                    elif k == 'mkfile':
                        _mkfile(root, op)
                    elif k == 'io':
                        fs.arm(op['kind'], nth=op['nth'], err=op['errno'], repeat=op['repeat'], torn=op.get('torn'))
                        armed.append('io:' + op['kind'])
                    elif k == 'sig':
                        what = op['what']
                        sigs = []
                        if what == 'break':
                            sigs = [K.sig_break()]
                        elif what == 'pause':
                            sigs = [K.sig_pause()]
                        elif what == 'keys':
                            sigs = [K.sig_key(ch, 0x1e, ()) for ch in op['text']]
                        elif what == 'fkey':
                            sigs = [K.sig_key(u'\x00\x3b', 0x3b, ()), K.sig_key(u'\x00\x3c', 0x3c, ())]
                        elif what == 'pen':
                            sigs = [K.sig_pen_down(-5, 9999), K.sig_pen_moved(3, 3), K.sig_pen_up()]
                        elif what == 'stick':
                            sigs = [K.sig_stick_down(0, 0), K.sig_stick_moved(1, 300, -5), K.sig_stick_up(1, 1)]
                        elif what == 'closed':
                            sigs = [K.sig_stream(op['text']), K.sig_stream_closed()]
                        else:
                            sigs = [K.sig_key(u'\x00\x53', 0x53, ())]
                        pending_sigs.append((op['poll'], sigs))
                        armed.append('sig:' + what)
                    elif k == 'clock':
                        w.jump_clock(op['jump'])
                        armed.append('clock')
                    elif k == 'api':
                        c = op['call']
                        if c == 'evaluate':
                            d.eval(b(op['arg']))
                        elif c == 'get':
                            name = op['arg'] if op['arg'][-1:] in '$%!#' or op['arg'].endswith(')') else op['arg'] + '!'
                            if '(' in name:
                                name = name.split('(')[0] + '()'
                            if name[:1].isalpha() and name.split('(')[0][-1:] in '$%!#':
                                d.get(b(name))
                        elif c == 'set':
                            name = 'V$' if isinstance(op['value'], str) else 'V!'
                            v = op['value']
                            if isinstance(v, list):
                                name = 'G%()'
                            if v is not None:
                                try:
                                    d.set(b(name), v)
                                except EngineCrash as e:
                                    # set_variable documents no error contract for out-of-range Python values
                                    # other than BASIC errors; a BASICError escaping the API is not an internal error
                                    if e.exc_type not in ('BASICError',):
                                        raise
                        elif c == 'bind':
                            # a host file bound to a BASIC name on the internal device, then used by statements
                            nm = d._guard('bind_file', lambda: d.s.bind_file(os.path.join(root, 'c', 'BOUND.DAT'), create=True))
                            for st in op.get('stmts', ()):
                                r = d.exec(b(st.replace('@N', bytes(nm).decode('latin-1'))), poll_cap=2500)
                        elif c == 'chars':
                            d.chars()
                        elif c == 'pixels':
                            d.pixels()
                        run.state('api', c)
                    elif k == 'restart':
                        # suspend/resume are host API calls: an OSError from them is their documented
                        # failure mode, so no injected fault may be pending here
                        fs.disarm()
                        del armed[:]
                        d = suspend_resume(d, os.path.join(root, 'chaos.state'))
                    elif k == 'close':
                        # the session is closed with whatever fault is armed still pending; then a new one starts
                        d.close()
                        fs.disarm()
                        del armed[:]
                        d = new_driver()
                        run.state('api', 'close')
                    elif k == 'checkpoint':
                        # save the session and carry on with the live one
                        fs.disarm()
                        del armed[:]
                        d._guard('suspend', lambda: d.s.suspend(os.path.join(root, 'checkpoint.state')))
                        run.state('api', 'checkpoint')
                    elif k == 'interact':
                        sink = ByteSink()
                        d._guard('add_pipes', lambda: d.s.add_pipes(output_streams=sink))
                        script = [{'t': 'line', 'text': ln} for ln in op['lines']]
                        old = w.poll_hook

                        def extra(wd, typist):
                            feeder(wd)
                        interact(d, script, extra=extra, poll_cap=6000, stall_polls=900)
                        w.poll_hook = old
                        d._guard('remove_pipes', lambda: d.s.remove_pipes(output_streams=sink))
                        run.state('interact', len(op['lines']))
                except error.Exit:
                    # SYSTEM, closed input stream or Ctrl-Alt-Del: a normal exit; start a new session on the same disk
                    try:
                        d.close()
                    except EngineCrash:
                        raise
                    # the harness's own directory calls must not run into a fault that is still armed
                    fs.disarm()
                    del armed[:]
                    d = new_driver()
                    run.probe('normal_exits')
            fs.disarm()
            d.close()
    return execute(case, body)
