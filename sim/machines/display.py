"""
display machine - C35 (display == engine screen state), C36 (text cursor / screen content
consistency), C30 (graphics stays inside viewport and active page).

Two parties: the engine, and a reference display (`sim.display_ref.RefDisplay`) that folds the
video signals the engine emits.  One run = one session history on one adapter configuration
under one consumer-lag schedule, optionally with suspend/resume + attach of a fresh display.

Oracles (per property; a run evaluates the oracles of its own property, plus cheap ones)

C35  (histories include Ctrl+Break through the input queue at a seeded poll inside PAINT / between the
     statements of drawing and printing loops, stored programs with CONT, LIST; and line editing on
     long wrapped lines that cross a VIEW PRINT window edge)
     whenever the video backlog is empty: reference canvas == Session.get_pixels() and reference
     text grid == Session.get_chars(str) (visible page); printable-ASCII agreement between
     get_chars(bytes) and get_chars(str); after suspend/resume a fresh display shows the same
     picture, palette, border and (when visible) cursor as the old display did.
C36  CSRLIN/POS inside the screen; CSRLIN/POS equal to the reference model's landing position of
     the next character; explicit LOCATE r,c -> cursor (r,c) or error 5, outside the screen always
     error 5; landing probe (PRINT "x"; puts x at the reported cell); SCREEN(r,c) == get_chars cell
     == model cell; deferred-wrap placement model for plain text; rows outside an active VIEW PRINT
     window unchanged by PRINT/CLS.  Per page: writes go to the active page only; PCOPY s,d makes
     page d hold what page s held at that instant; nothing else changes a page that is not the
     active one.  Each page has a reference content (the active page: the placement model; other
     pages: the content last observed or copied); it is compared with get_chars() whenever the
     page is the visible one (after every statement while the visible page is not the active
     one, on every page switch, and in 'pages' sweeps that visit every page with SCREEN ,,p,p)
     and with SCREEN(r,c) on the active page, also while that page is hidden.  A page never seen
     since the last mode change has no reference yet: its first reading is taken on trust.
     A failed statement changes nothing: LOCATE (each argument legal / illegal / left out) run from
     a stored program with the error trapped leaves CSRLIN/POS as they were and the placement model
     carries on (a bare PRINT right after it scrolls or advances as it would have); untrapped, the
     error message is ordinary output - it keeps the cursor inside the scroll area and leaves the
     rows outside it unchanged.
C30  for every graphics statement: before/after snapshot of all pages; graphics mode: changes only
     on the active page and only inside the viewport that was current when the statement started
     (VIEW itself draws its fill and border with the viewport unset, so only the page is judged
     for it); reference display unchanged while the active page is hidden; text mode: error 5 and
     nothing (pixels of any page, characters, cursor) changes.  The statement is run from a stored
     three-line program with ON ERROR GOTO so that no error message is printed on the screen
     (a direct-mode error message is itself text/pixels on the active page).  A failed statement
     (other than DRAW, which keeps what it drew before the faulty command) changes no pixel on any
     page and leaves the coordinate mapping (PMAP, i.e. viewport and window) as it was - so drawing
     after a failed VIEW is still judged against the old viewport; a failed VIEW/WINDOW also leaves
     the last point (POINT(0), POINT(1)).  VIEW with fill and border left out changes no pixel; its
     fill stays inside the new viewport, its border inside the one-pixel frame around it.

Deliberately left out (property silent or corner unspecified): exact effect of control
characters, PRINT zones, key bar contents, a PRINT newline issued in the column-80 overflow state
(one or two line advances), strings that do not fit the rest of the line when not starting in
column 1, LOCATE with omitted coordinates, whether a statement that takes a point moves the last
point before it fails, anything
written while the cursor is below the scroll window (row 25).  In those cases the model is
re-synchronised from get_chars/CSRLIN/POS and only the invariants are checked.
Pages: which page numbers are valid (SCREEN ,,a,v and PCOPY may fail with any error for any number;
then no page changes but for the message on the active page), the cursor position after a page
switch, what a mode change leaves on the pages (all references are dropped), and the content of
a hidden active page after output the placement model does not predict (unknown until the page
is next shown).

Observation surfaces: statement output, evaluate (CSRLIN, POS, SCREEN), get_chars, get_pixels,
video signals.  One exception, stated here and in the report: C30 needs the pixel buffers of
*all* pages and the API exposes only the visible one, so pages are read with the accessor
`display.pages[i].pixels[:, :]` - the very expression `Session.get_pixels()` uses for the visible
page; the visible page's accessor reading is cross-checked against get_pixels().
"""

import os

from .. import kernel as K
from ..basicdrv import Driver, EngineCrash, suspend_resume
from ..display_ref import RefDisplay
from .common import Run, execute, b, u, shash

NAME = 'display'
PROPS = ('C30', 'C35', 'C36')
RULE = ('one evaluation = one simulated session history on one adapter/monitor/width/codepage '
        'configuration under one consumer-lag schedule (with optional suspend/resume + fresh display); '
        'distinct = distinct (property, adapter, text/graphics + size, op kind, previous op kind, '
        'view-print active, active page hidden, lag bucket) tuples reached; non-trivial = at least one '
        'comparison of display vs engine / model vs engine / before vs after page snapshot was made')
REAL = ['pcbasic.basic (whole package: display, textscreen, buffers, graphics, cursor, colours, console)',
        'pcbasic.interface.video.VideoPlugin._drain_queue (signal dispatch of the reference display)',
        'pcbasic.basic.state (suspend/resume)', 'pcbasic.data fonts and codepages']
STUB = ['SDL2/curses/ANSI front ends (reference consumer on a plain 2-D array instead)',
        'the user (typed keys through the input queue)', 'wall clock (simulated)', 'audio back end']
ASSUMPTIONS = [
    'reference consumer semantics follow interface/video_sdl2.py (pixels) and video_curses/video_ansi (text)',
    'C30 reads non-visible pages with the same accessor expression get_pixels() uses for the visible page',
]
BATCH = 10


def quick_runs(prop):
    return {'C35': 1500, 'C36': 3600, 'C30': 2800}.get(prop, 1200)


###############################################################################
# configuration tables (generator hints only - never used to judge)

ADAPTERS = ['cga', 'ega', 'vga', 'mda', 'hercules', 'olivetti', 'pcjr', 'tandy']
FONTS = {
    'cga': ['cga'], 'ega': ['vga'], 'vga': ['vga'], 'mda': ['cga', 'mda'], 'hercules': ['cga', 'mda'],
    'olivetti': ['cga', 'olivetti'], 'pcjr': ['vga'], 'tandy': ['tandy2'],
}
SYNTAX = {'pcjr': 'pcjr', 'tandy': 'tandy'}
# graphics modes by adapter: number -> (pixel width, pixel height, text columns)
GMODES = {
    'cga': {1: (320, 200, 40), 2: (640, 200, 80)},
    'ega': {1: (320, 200, 40), 2: (640, 200, 80), 7: (320, 200, 40), 8: (640, 200, 80), 9: (640, 350, 80)},
    'vga': {1: (320, 200, 40), 2: (640, 200, 80), 7: (320, 200, 40), 8: (640, 200, 80), 9: (640, 350, 80)},
    'mda': {},
    'hercules': {3: (720, 348, 80)},
    'olivetti': {1: (320, 200, 40), 2: (640, 200, 80), 3: (640, 400, 80)},
    'pcjr': {1: (320, 200, 40), 2: (640, 200, 80), 3: (160, 200, 20), 4: (320, 200, 40),
             5: (320, 200, 40), 6: (640, 200, 80)},
    'tandy': {1: (320, 200, 40), 2: (640, 200, 80), 3: (160, 200, 20), 4: (320, 200, 40),
              5: (320, 200, 40), 6: (640, 200, 80)},
}
# number of pages at 256k video memory (hint for plausible page numbers)
NPAGES = {1: 8, 2: 8, 3: 8, 4: 8, 5: 4, 6: 4, 7: 32, 8: 16, 9: 8, 10: 8}
DBCS_CODEPAGES = ['932', '936', '949', '950']
SBCS_CODEPAGES = ['850', '866', '1258', 'koi8-r', '864']

PLAIN = ''.join(chr(c) for c in range(33, 127) if c != 34)
CTL = '\x07\x08\x09\x0a\x0b\x0c\x0d\x1c\x1d\x1e\x1f\x00\x01\x7f\xff'
EDIT_KEYS = '\x1e\x1f\x1c\x1d\x0b\x0e\x12\x7f\x08\x09\x0a\x1b\x05\x06\x02\x0c'


###############################################################################
# generator

def _plain(rng, n):
    if rng.random() < 0.25:
        return rng.choice(PLAIN) * n
    return ''.join(rng.choice(PLAIN + '    ') for _ in range(n))


def _coord(rng, size):
    r = rng.random()
    if r < 0.45:
        return rng.randint(0, max(0, size - 1))
    if r < 0.70:
        return rng.choice([0, 1, size - 2, size - 1, size, size + 1, -1, -2, size // 2])
    if r < 0.90:
        return rng.choice([-1, 1]) * rng.randint(size, 3 * size + 50)
    return rng.choice([-32768, 32767, -20000, 20000, -5000, 5000, 1000])


def _pt(rng, gm):
    # gm = (width, height, cols[, x offset, y offset]): extent of the screen or of the current viewport
    ox = gm[3] if len(gm) > 3 else 0
    oy = gm[4] if len(gm) > 4 else 0
    return '(%d,%d)' % (ox + _coord(rng, gm[0]), oy + _coord(rng, gm[1]))


def _attr(rng):
    return rng.choice([0, 1, 2, 3, 1, 2, 3, 7, 14, 15, 16, 255])


def _gfx_stmt(rng, gm, tier):
    """One graphics statement as (kind, text)."""
    w, h = gm[0], gm[1]
    r = rng.random()
    step = 'STEP' if rng.random() < 0.12 else ''
    if r < 0.14:
        kw = rng.choice(['PSET', 'PRESET'])
        s = '%s %s%s' % (kw, step, _pt(rng, gm))
        if rng.random() < 0.7:
            s += ',%d' % _attr(rng)
        return kw.lower(), s
    if r < 0.42:
        s = 'LINE '
        if rng.random() < 0.85:
            s += step + _pt(rng, gm)
        s += '-' + ('STEP' if rng.random() < 0.12 else '') + _pt(rng, gm)
        shape = rng.choice(['', '', 'B', 'BF', 'BF'])
        if rng.random() < 0.8 or shape:
            s += ',%s' % (_attr(rng) if rng.random() < 0.85 else '')
        if shape:
            s += ',' + shape
        if shape != 'BF' and rng.random() < 0.2:
            if not shape:
                s += ','
            s += ',&H%04X' % rng.choice([0xAAAA, 0xFF00, 0x8001, 0xF0F0, rng.randint(1, 65535)])
        return 'line' + shape.lower(), s
    if r < 0.58:
        rad = rng.choice([0, 1, 5, 20, 50, 100, 200, rng.randint(1, 400), rng.randint(200, 1500 if tier == 'quick' else 4000)])
        s = 'CIRCLE %s%s,%d' % (step, _pt(rng, gm), rad)
        if rng.random() < 0.12:
            # very small circles and ellipses with sectors (lines to the centre) and explicit aspect
            s = 'CIRCLE %s%s,%d,%d,%s,%s' % (
                step, _pt(rng, gm), rng.randint(0, 6), _attr(rng),
                rng.choice(['', '-%.2f' % rng.uniform(0.01, 6.28), '-%.2f' % rng.uniform(0.01, 6.28), '%.2f' % rng.uniform(0, 6.28)]),
                rng.choice(['', '-%.2f' % rng.uniform(0.01, 6.28), '%.2f' % rng.uniform(0, 6.28)]))
            if rng.random() < 0.7:
                s += ',%s' % rng.choice(['1', '1', '.5', '2', '.8333', '.1', '10'])
        elif rng.random() < 0.6:
            s += ',%d' % _attr(rng)
            if rng.random() < 0.4:
                a0 = rng.choice(['', '0', '1.5', '-1', '3.1', '-4.5', '6.28'])
                a1 = rng.choice(['', '0.5', '2', '-2', '-6.2', '6.28'])
                s += ',%s,%s' % (a0, a1)
                if rng.random() < 0.5:
                    s += ',%s' % rng.choice(['1', '.5', '2', '.1', '10', '.8333'])
        return 'circle', s
    if r < 0.70:
        s = 'PAINT %s%s' % (step, _pt(rng, gm))
        q = rng.random()
        if q < 0.6:
            s += ',%d' % _attr(rng)
            if rng.random() < 0.5:
                s += ',%d' % _attr(rng)
        elif q < 0.8:
            s += ',CHR$(%d)+CHR$(%d)' % (rng.randint(1, 255), rng.randint(0, 255))
            if rng.random() < 0.4:
                s += ',%d' % _attr(rng)
        return 'paint', s
    if r < 0.86:
        parts = []
        for _ in range(rng.randint(1, 8)):
            q = rng.random()
            pre = rng.choice(['', '', '', 'B', 'N'])
            if q < 0.55:
                parts.append('%s%s%d' % (pre, rng.choice('UDLREFGH'),
                                         rng.choice([1, 5, 10, 40, 100, 300, rng.randint(0, 900)])))
            elif q < 0.75:
                sign = rng.choice(['', '+', '-'])
                parts.append('%sM%s%d,%d' % (pre, sign, abs(_coord(rng, w)) % 3000,
                                             _coord(rng, h) % 3000 if sign else abs(_coord(rng, h)) % 3000))
            elif q < 0.82:
                parts.append('C%d' % rng.randint(0, 15))
            elif q < 0.88:
                parts.append('S%d' % rng.choice([1, 4, 8, 16, 40, 255]))
            elif q < 0.93:
                parts.append(rng.choice(['A0', 'A1', 'A2', 'A3', 'TA45', 'TA-90', 'TA200']))
            else:
                parts.append('P%d,%d' % (rng.randint(0, 15), rng.randint(0, 15)))
        return 'draw', 'DRAW "%s"' % ''.join(parts)
    # POINT-free no-ops are of no interest; a second helping of boxes
    s = 'LINE %s-%s,%d,BF' % (_pt(rng, gm), _pt(rng, gm), _attr(rng))
    return 'linebf', s


def _gen_session(rng, prop):
    adapter = rng.choice(ADAPTERS if prop != 'C30' else ['cga', 'ega', 'vga', 'ega', 'vga', 'hercules',
                                                      'olivetti', 'pcjr', 'tandy'])
    monitor = 'rgb'
    if adapter in ('mda', 'hercules'):
        monitor = 'mono'
    elif adapter == 'ega' and rng.random() < 0.15:
        monitor = 'mono'
    elif adapter in ('cga', 'pcjr', 'tandy') and rng.random() < 0.2:
        monitor = 'composite'
    vmem = 262144
    if adapter in ('pcjr', 'tandy') and rng.random() < 0.4:
        vmem = rng.choice([16384, 32768, 65536])
    elif adapter == 'ega' and rng.random() < 0.2:
        vmem = 65536
    codepage = '437'
    q = rng.random()
    if prop != 'C30':
        share = 0.14 if prop == 'C35' else 0.08
        if q < share:
            codepage = rng.choice(DBCS_CODEPAGES)
        elif q < share + 0.08:
            codepage = rng.choice(SBCS_CODEPAGES)
    return {
        'video': adapter, 'monitor': monitor, 'text_width': rng.choice([80, 80, 80, 40]),
        'video_memory': vmem, 'codepage': codepage, 'box_protect': rng.random() < 0.8,
        'syntax': SYNTAX.get(adapter, 'advanced'),
    }


class _Hint(object):
    """Generator-side guess of the mode (for plausible coordinates only)."""

    def __init__(self, sess):
        self.adapter = sess['video']
        self.width = sess['text_width']
        self.vmem = sess['video_memory']
        self.gm = None      # (w, h, cols) when in graphics mode
        self.mode = 0
        self.view = None    # extent for coordinates while a VIEW is (probably) set

    def extent(self):
        return self.view or self.gm or (640, 200, 80)

    def set_view(self, op):
        if self.gm is None:
            return
        if op.get('reset'):
            self.view = None
            return
        x0, x1 = sorted((op['x0'], op['x1']))
        y0, y1 = sorted((op['y0'], op['y1']))
        if not all(v is None or 0 <= v <= 255 for v in (op.get('fill'), op.get('border'))):
            return
        if 0 <= x0 < x1 < self.gm[0] and 0 <= y0 < y1 < self.gm[1]:
            if op.get('screen'):
                self.view = (x1 - x0 + 1, y1 - y0 + 1, self.gm[2], x0, y0)
            else:
                self.view = (x1 - x0 + 1, y1 - y0 + 1, self.gm[2])

    def screen(self, m):
        self.view = None
        if m == 0:
            self.gm = None
            self.mode = 0
            if self.width == 20:
                self.width = 40
        elif m in GMODES[self.adapter]:
            self.gm = GMODES[self.adapter][m]
            self.width = self.gm[2]
            self.mode = m
        elif self.adapter == 'olivetti' and m >= 3:
            self.gm = GMODES['olivetti'][3]
            self.width = 80
            self.mode = 3


def _screen_op(rng, hint, want_gfx=None, pages='any'):
    ad = hint.adapter
    gmodes = sorted(GMODES[ad])
    q = rng.random()
    if want_gfx is True and gmodes:
        m = rng.choice(gmodes)
    elif want_gfx is False:
        m = 0
    elif q < 0.45 and gmodes:
        m = rng.choice(gmodes)
    elif q < 0.75:
        m = 0
    elif q < 0.9:
        m = None
    else:
        m = rng.choice([1, 2, 3, 7, 9, 10, 11, 13, 255])
    op = {'op': 'screen', 'm': m, 'cs': rng.choice([None, None, None, 0, 1]), 'ap': None, 'vp': None}
    mm = hint.mode if m is None else m
    np_ = NPAGES.get(mm, 4) * hint.vmem // 262144
    if ad == 'hercules' and mm:
        np_ = 2
    elif ad == 'olivetti' and mm >= 3:
        np_ = 1
    np_ = max(1, min(np_, 8))

    def page():
        if rng.random() < 0.85:
            return rng.choice([0, rng.randint(0, np_ - 1), rng.randint(0, np_ - 1)])
        return rng.choice([1, 2, 3, 7, 8, np_])
    if pages == 'same':
        if rng.random() < 0.4:
            op['ap'] = op['vp'] = page()
    elif pages == 'explicit' or rng.random() < 0.6:
        op['ap'] = page()
        op['vp'] = rng.choice([page(), op['ap']])
    if m is not None:
        hint.screen(m)
    return op


def _print_op(rng, hint, plain_only=False, dbcs=False):
    w = hint.width
    q = rng.random()
    end = rng.choice(['', '', ';', ';', ';']) if plain_only else rng.choice(['', '', ';', ';', ','])
    if q < 0.12:
        return {'op': 'printrep', 'ch': rng.choice(PLAIN), 'n': rng.choice([w - 1, w, w + 1, 2 * w, 2 * w + 3, 255, rng.randint(1, 255)]),
                'end': rng.choice(['', ';', ';'])}
    if q < 0.55 or plain_only:
        n = rng.choice([1, 2, 5, 10, rng.randint(1, 30), rng.randint(1, 30), rng.randint(w - 5, w + 5), rng.randint(1, 120)])
        return {'op': 'print', 's': _plain(rng, max(1, n)), 'end': end}
    # mixed text with control characters / high bytes / DBCS pairs
    parts = []
    for _ in range(rng.randint(1, 6)):
        z = rng.random()
        if z < 0.5:
            parts.append(_plain(rng, rng.randint(1, 25)))
        elif z < 0.8:
            parts.append(rng.choice(CTL))
        elif dbcs:
            parts.append(''.join(chr(rng.randint(0x81, 0xfe)) + chr(rng.choice([rng.randint(0x40, 0x7e), rng.randint(0x80, 0xfe)]))
                                 for _ in range(rng.randint(1, 6))))
        else:
            parts.append(''.join(chr(rng.randint(128, 255)) for _ in range(rng.randint(1, 8))))
    return {'op': 'print', 's': ''.join(parts)[:110], 'end': end}


def _edge_print_ops(rng, hint, dbcs):
    """LOCATE near the right edge, then text that ends at, one short of or one past the last column."""
    w = hint.width
    col = rng.randint(max(1, w - 8), w)
    row = rng.choice([1, 2, 24, 25, rng.randint(1, 24), rng.randint(1, 24)])
    k = max(1, w - col + 1 + rng.choice([0, 0, 0, -1, 1]))
    if dbcs and rng.random() < 0.75:
        # few characters, so that the same ones come back alone, as lead and as trail of a pair
        if getattr(hint, 'abc', None) is None:
            hint.abc = [rng.choice(PLAIN[31:]) for _ in range(3)]
        abc = hint.abc
        def pair():
            # lead byte with an ASCII or a high trail byte: valid and undefined pairs alike
            return chr(rng.randint(0x81, 0xfe)) + (rng.choice(abc) if rng.random() < 0.6 else chr(rng.randint(0x80, 0xfe)))
        parts = []
        while len(''.join(parts)) < k:
            parts.append(rng.choice(abc) if rng.random() < 0.7 else pair())
        s = ''.join(parts)[:k]
        pre = ''.join(rng.choice(abc) + pair() if rng.random() < 0.7 else pair() for _ in range(rng.randint(0, 3)))
        ops = []
        if pre:
            ops.append({'op': 'print', 's': pre, 'end': ';'})
        ops.append({'op': 'locate', 'r': row, 'c': col, 'cur': None})
        ops.append({'op': 'print', 's': s, 'end': rng.choice([';', ';', ''])})
        return ops
    return [{'op': 'locate', 'r': row, 'c': col, 'cur': None},
            {'op': 'print', 's': _plain(rng, k), 'end': rng.choice([';', ';', ''])}]


def _locate_op(rng, hint):
    w = hint.width
    q = rng.random()
    if q < 0.55:
        r, c = rng.randint(1, 24), rng.randint(1, w)
    elif q < 0.8:
        r = rng.choice([1, 2, 23, 24, 25, rng.randint(1, 25)])
        c = rng.choice([1, 2, w - 1, w, w, rng.randint(1, w)])
    else:
        r = rng.choice([0, -1, 25, 26, 255, 256, rng.randint(1, 25)])
        c = rng.choice([0, -1, w + 1, 81, 255, 256, rng.randint(1, w)])
    op = {'op': 'locate', 'r': r, 'c': c, 'cur': None}
    z = rng.random()
    if z < 0.08:
        op['r'] = None
    elif z < 0.16:
        op['c'] = None
    if rng.random() < 0.15:
        op['cur'] = rng.choice([0, 1])
    if rng.random() < 0.3:
        # run from a stored program with the error trapped (no message on the screen)
        op['trap'] = True
    return op


def _failed_stmt_block(rng, hint):
    """
    A statement that fails (LOCATE with each argument legal / illegal / left out), with the cursor at
    the bottom or top of the scroll area or anywhere, directly followed by a bare line break or more
    output: a failed statement changes nothing, so the output goes where it would have gone.
    """
    w = hint.width
    ops = []
    q = rng.random()
    if q < 0.55:
        ops.append({'op': 'locate', 'r': 24, 'c': rng.choice([1, 2, w, rng.randint(1, w)]), 'cur': None})
    elif q < 0.7:
        ops.append({'op': 'locate', 'r': rng.randint(1, 24), 'c': rng.randint(1, w), 'cur': None})
    elif q < 0.85:
        ops.append({'op': 'scrollburst', 'n': rng.randint(20, 30), 's': _plain(rng, rng.randint(0, 5))})
        if rng.random() < 0.5:
            ops.append({'op': 'print', 's': _plain(rng, rng.randint(1, 10)), 'end': ';'})

    def arg(legal, illegal):
        z = rng.random()
        return rng.choice(legal) if z < 0.4 else (rng.choice(illegal) if z < 0.85 else None)
    for _ in range(rng.choice([1, 1, 2])):
        r = arg([1, 24, 25, 25, rng.randint(1, 25)], [0, 26, 255, 256, -1, 25 + rng.randint(1, 50)])
        col = arg([1, w, rng.randint(1, w)], [0, w + 1, 99, 255, 256, -1])
        if r is None and col is None:
            col = w + 1
        ops.append({'op': 'locate', 'r': r, 'c': col, 'cur': rng.choice([None, None, 0, 1]), 'trap': rng.random() < 0.7})
    z = rng.random()
    if z < 0.5:
        ops.append({'op': 'print', 's': '', 'end': ''})
    elif z < 0.7:
        ops.append({'op': 'land', 'ch': rng.choice(PLAIN)})
    elif z < 0.85:
        ops.append({'op': 'print', 's': _plain(rng, rng.randint(1, 20)), 'end': rng.choice(['', ';'])})
    if rng.random() < 0.5:
        ops.append({'op': 'print', 's': rng.choice(['', _plain(rng, rng.randint(1, 8))]), 'end': ''})
    return ops


def _editwrap_block(rng, hint):
    """
    Line editing on a long logical line (wrapped over several rows) that crosses the edge of a VIEW
    PRINT window, or sits at the bottom of the screen: clear to end of line, delete, insert, Enter.
    """
    w = hint.width
    ops = []
    r0 = rng.randint(1, 22)
    nrows = rng.choice([2, 3, 3, 4])
    n = min(255, (nrows - 1) * w + rng.randint(1, w))
    ops.append({'op': 'locate', 'r': r0, 'c': 1, 'cur': None})
    ops.append({'op': 'printrep', 'ch': rng.choice(PLAIN), 'n': n, 'end': rng.choice(['', ';'])})
    q = rng.random()
    if q < 0.75:
        # window edge inside the logical line, above it or below it
        bt = max(1, min(24, r0 + rng.choice([-1, 0, 0, 1, 1, 2])))
        a = rng.randint(1, bt)
        if rng.random() < 0.3:
            a = max(1, min(bt, r0 - rng.choice([0, 1, 3])))
        ops.append({'op': 'viewprint', 'a': a, 'b': bt})
        if rng.random() < 0.5:
            ops.append({'op': 'locate', 'r': rng.randint(a, bt), 'c': rng.choice([1, rng.randint(1, w)]), 'cur': None})
    keys = []
    for _ in range(rng.randint(0, 5)):
        keys.append(rng.choice('\x1f\x1f\x1f\x1e\x1c\x1d\x0e\x0b\x06\x02'))
    for _ in range(rng.randint(1, 3)):
        keys.append(rng.choice('\x1b\x05\x1b\x05\x7f\x08\x12x'))
    if rng.random() < 0.3:
        keys.append(_plain(rng, rng.randint(1, 6)))
    keys = ''.join(keys)
    if rng.random() < 0.5:
        ops.append({'op': 'lineinput', 'prompt': _plain(rng, rng.randint(0, 4)), 'keys': keys})
    else:
        ops.append({'op': 'typed', 'keys': keys})
    return ops


def _breakin_op(rng, hint, tier):
    """Ctrl+Break at a seeded poll inside / between the statements of something that takes a while."""
    gm = hint.gm
    w_, h_ = (gm[0], gm[1]) if gm else (640, 200)

    def long_stmt():
        q = rng.random()
        if gm is not None and q < 0.45:
            s = 'PAINT (%d,%d),%d' % (rng.randint(0, w_ - 1), rng.randint(0, h_ - 1), rng.choice([1, 2, 3, 1, 15]))
            if rng.random() < 0.3:
                s += ',%d' % rng.choice([1, 2, 3])
            if rng.random() < 0.3:
                s = 'CLS:' + s
            return s
        if gm is not None and q < 0.6:
            return 'FOR I%%=0 TO %d:LINE (I%%*%d,I%%)-(I%%*%d+%d,%d),I%% MOD 4,BF:NEXT' % (
                rng.randint(5, 30), rng.randint(1, 9), rng.randint(1, 9), rng.randint(5, w_ // 2), rng.randint(5, h_ - 1))
        if gm is not None and q < 0.7:
            return 'FOR I%%=1 TO %d:CIRCLE (%d+I%%*%d,%d),I%%*%d,I%% MOD 4:NEXT' % (
                rng.randint(3, 15), rng.randint(0, w_ // 2), rng.randint(1, 12), rng.randint(0, h_ - 1), rng.randint(1, 9))
        if gm is not None and q < 0.75:
            return 'FOR I%%=1 TO %d:DRAW "U%dR%dD%dL%dBM+3,3":NEXT' % (rng.randint(3, 20), rng.randint(1, 60), rng.randint(1, 60),
                                                                     rng.randint(1, 60), rng.randint(1, 60))
        if q < 0.9:
            return 'FOR I%%=1 TO %d:PRINT %s;I%%%s:NEXT' % (rng.randint(5, 40), strexpr(_plain(rng, rng.randint(0, 30))),
                                                          rng.choice(['', ';', ',']))
        return 'PRINT STRING$(255,"%s");STRING$(255,"%s")' % (rng.choice(PLAIN), rng.choice(PLAIN))
    at = rng.choice([1, 2, 3, rng.randint(1, 12), rng.randint(1, 40), rng.randint(1, 120)])
    q = rng.random()
    if q < 0.5:
        return {'op': 'breakin', 'lines': [], 'cmd': long_stmt(), 'at': at, 'cont': rng.random() < 0.15}
    if q < 0.85:
        lines = [long_stmt() for _ in range(rng.randint(1, 3))]
        return {'op': 'breakin', 'lines': lines, 'cmd': 'RUN', 'at': at, 'cont': rng.random() < 0.6}
    lines = ["REM " + _plain(rng, rng.randint(0, 40)) for _ in range(rng.randint(5, 35))]
    return {'op': 'breakin', 'lines': lines, 'cmd': 'LIST', 'at': at, 'cont': False}


def _viewprint_op(rng):
    if rng.random() < 0.2:
        return {'op': 'viewprint', 'a': None, 'b': None}
    q = rng.random()
    if q < 0.7:
        a = rng.randint(1, 22)
        bt = rng.randint(a, 24)
    elif q < 0.85:
        a = rng.choice([1, 12, 24])
        bt = a
    else:
        a = rng.choice([0, 1, 5, 24, 25])
        bt = rng.choice([0, 3, 24, 26, 30])
    return {'op': 'viewprint', 'a': a, 'b': bt}


def _typed_op(rng, hint):
    parts = ["'"] if rng.random() < 0.7 else []
    for _ in range(rng.randint(1, 7)):
        z = rng.random()
        if z < 0.10:
            # something that reads as a number literal (octal, hex, decimal), blanks and all
            digits = rng.choice(['01234567', '01234567', '0123456789', '0123456789ABCDEF'])
            parts.append(rng.choice(['&', '&O', '&o', '&H', '&h', '', '.', '1E', '1D']) +
                         ''.join(rng.choice(digits) for _ in range(rng.randint(0, 3))) +
                         rng.choice(['', ' ', ' ', '  ', '.', '+', '-']) +
                         ''.join(rng.choice(digits) for _ in range(rng.randint(0, 3))))
        elif z < 0.55:
            parts.append(_plain(rng, rng.randint(1, 12)))
        else:
            parts.append(''.join(rng.choice(EDIT_KEYS) for _ in range(rng.randint(1, 4))))
    if rng.random() < 0.1:
        parts.append(_plain(rng, rng.randint(hint.width - 10, hint.width + 30)))
    return {'op': 'typed', 'keys': ''.join(parts)[:150]}


def _color_op(rng, hint):
    q = rng.random()
    if hint.gm is None:
        f = rng.choice([None, 0, 1, 7, 14, 15, 17, 31, rng.randint(0, 33)])
        bk = rng.choice([None, 0, 1, 2, 4, 7, 9, 15, rng.randint(0, 17)])
        bd = rng.choice([None, None, 0, 3, 15])
    else:
        f = rng.choice([None, 0, 1, 2, 3, 7, 15, rng.randint(0, 17)])
        bk = rng.choice([None, 0, 1, 2, 3, 7, rng.randint(0, 17)])
        bd = rng.choice([None, None, None, 0, 1])
    args = [('' if x is None else str(x)) for x in (f, bk, bd)]
    while args and args[-1] == '':
        args.pop()
    if not args:
        args = ['7']
    return {'op': 'color', 'args': ','.join(args)}


def _npages_hint(hint):
    """Plausible number of pages in the current mode (a generator hint; invalid numbers are wanted too)."""
    if hint.adapter in ('mda',):
        return 1
    if hint.gm is None:
        return 2 if hint.adapter == 'hercules' else (8 if hint.width == 40 else 4)
    if hint.adapter == 'hercules':
        return 2
    if hint.adapter == 'olivetti' and hint.mode >= 3:
        return 1
    return max(1, min(8, NPAGES.get(hint.mode, 4) * hint.vmem // 262144))


def _pageno(rng, np_):
    q = rng.random()
    if q < 0.72:
        # few pages, so that copies, writes and visits meet on the same ones
        return rng.choice([0, 1, 0, 1, min(2, np_ - 1)])
    if q < 0.92:
        return rng.randint(0, np_ - 1)
    return rng.choice([np_, np_ + 1, 8, 9, 255, 256, -1])


def _pageswitch_op(rng, np_, hidden=0.45):
    ap = _pageno(rng, np_)
    vp = ap
    if rng.random() < hidden:
        vp = _pageno(rng, np_)
    q = rng.random()
    if q < 0.08:
        return {'op': 'screen', 'm': None, 'cs': None, 'ap': None, 'vp': vp}
    if q < 0.16 and vp == ap:
        return {'op': 'screen', 'm': None, 'cs': None, 'ap': ap, 'vp': None}
    return {'op': 'screen', 'm': None, 'cs': None, 'ap': ap, 'vp': vp}


def _sweep_op(rng, hint, np_, full=True):
    w = hint.width
    n = np_ if full or rng.random() < 0.5 else rng.randint(1, np_)
    if rng.random() < 0.1:
        n += 1
    op = {'op': 'pages', 'n': n,
          'cells': [[rng.randint(1, 24), rng.randint(1, w)] for _ in range(rng.choice([0, 1, 2, 3]))],
          'ap': None, 'vp': None}
    if rng.random() < 0.8:
        op['ap'] = _pageno(rng, np_)
        op['vp'] = op['ap'] if rng.random() < 0.55 else _pageno(rng, np_)
    return op


def _gen_pages(rng, hint, prop, long_, dbcs, faulty):
    """
    Histories about several pages: text (mostly) modes with more than one page, output on the active
    page - shown or hidden -, PCOPY between pages with valid and invalid numbers, page switches and
    sweeps that visit every page.
    """
    ops = []
    if rng.random() < 0.4:
        ops.append({'op': 'width', 'n': rng.choice([40, 80])})
        hint.width = ops[-1]['n']
    # an explicit mode and colour switch first: SCREEN ,,a,v with the switch left out would otherwise
    # change it, which rebuilds (clears) all pages
    if rng.random() < 0.12 and GMODES[hint.adapter]:
        first = _screen_op(rng, hint, want_gfx=True, pages='none')
    else:
        first = {'op': 'screen', 'm': 0, 'cs': None, 'ap': None, 'vp': None}
        hint.screen(0)
    first['cs'] = None
    first['ap'] = first['vp'] = 0
    ops.append(first)
    np_ = _npages_hint(hint)
    if rng.random() < 0.7:
        ops.append({'op': 'key', 'v': 'OFF'})
    if prop == 'C35' and rng.random() < 0.4:
        ops.append(_color_op(rng, hint))
    if prop == 'C36':
        ops.append({'op': 'cls', 'arg': ''})
        if rng.random() < 0.6:
            ops.append(_sweep_op(rng, hint, np_))
    n = rng.randint(8, 26) if not long_ else rng.randint(25, 100)
    for _ in range(n):
        r = rng.random()
        if r < 0.27:
            if rng.random() < 0.4:
                ops.append({'op': 'locate', 'r': rng.randint(1, 24), 'c': rng.randint(1, hint.width), 'cur': None})
            if prop == 'C36' or rng.random() < 0.6:
                ops.append(_print_op(rng, hint, plain_only=True))
            else:
                ops.append(_print_op(rng, hint, dbcs=dbcs))
        elif r < 0.33:
            ops.append(_locate_op(rng, hint))
        elif r < 0.48:
            ops.append(_pageswitch_op(rng, np_, hidden=0.45 if prop == 'C36' else 0.65))
        elif r < 0.61:
            ops.append({'op': 'pcopy', 's': _pageno(rng, np_), 'd': _pageno(rng, np_)})
        elif r < 0.66:
            ops.append({'op': 'cls', 'arg': rng.choice(['', '', '', '2', '0'])})
        elif r < 0.70:
            ops.append({'op': 'scrollburst', 'n': rng.randint(2, 30), 's': _plain(rng, rng.randint(0, 12))})
        elif r < 0.74:
            ops.append({'op': 'land', 'ch': rng.choice(PLAIN)})
        elif r < 0.80:
            if prop == 'C36':
                ops.append({'op': 'scrfn', 'cells': [[rng.randint(1, 25), rng.randint(1, hint.width)]
                                                     for _ in range(rng.randint(1, 6))]})
            else:
                ops.append({'op': 'drain'})
        elif r < 0.83:
            ops.append({'op': 'printrep', 'ch': rng.choice(PLAIN), 'n': rng.choice([hint.width, 2 * hint.width + 3, rng.randint(1, 255)]),
                        'end': rng.choice(['', ';', ';'])})
        elif r < 0.86:
            ops.append(_viewprint_op(rng))
        elif r < 0.93:
            if prop == 'C36':
                ops.append(_sweep_op(rng, hint, np_, full=False))
            else:
                ops.append(_pageswitch_op(rng, np_, hidden=0.3))
        elif r < 0.95:
            ops.append({'op': 'key', 'v': rng.choice(['ON', 'OFF'])})
        elif r < 0.97:
            ops.append(_color_op(rng, hint))
        elif r < 0.985:
            ops.append(_typed_op(rng, hint))
        elif prop == 'C35' and faulty:
            ops.append({'op': 'restart'})
        else:
            ops.append({'op': 'lineinput', 'prompt': _plain(rng, rng.randint(0, 6)), 'keys': _typed_op(rng, hint)['keys'][:40]})
    if prop == 'C36':
        ops.append(_sweep_op(rng, hint, np_))
    return ops


def gen(rng, tier, prop):
    sess = _gen_session(rng, prop)
    hint = _Hint(sess)
    dbcs = sess['codepage'] in DBCS_CODEPAGES
    long_ = tier != 'quick'
    ops = []
    cfg = {'session': sess, 'lag': 0, 'world': {}}
    if prop == 'C35':
        q = rng.random()
        cfg['lag'] = 0 if q < 0.45 else (1 if q < 0.6 else (rng.randint(2, 6) if q < 0.8 else 1000))
        faulty = cfg['lag'] != 0 or rng.random() < 0.3
        n = rng.randint(5, 28) if not long_ else rng.randint(20, 120)
        if rng.random() < 0.2:
            ops = _gen_pages(rng, hint, prop, long_, dbcs, faulty)
            n = 0
        elif rng.random() < 0.5:
            ops.append(_color_op(rng, hint))
        for _ in range(n):
            z = rng.random()
            if z < 0.035:
                ops.extend(_editwrap_block(rng, hint))
                continue
            if z < 0.09:
                if hint.gm is None and GMODES[hint.adapter] and rng.random() < 0.5:
                    ops.append(_screen_op(rng, hint, want_gfx=True))
                ops.append(_breakin_op(rng, hint, tier))
                continue
            r = rng.random()
            if r < 0.34:
                op = _print_op(rng, hint, dbcs=dbcs)
                if rng.random() < 0.25:
                    op = {'op': 'scrollburst', 'n': rng.randint(2, 30), 's': _plain(rng, rng.randint(0, 12))}
                elif rng.random() < (0.5 if dbcs else 0.15):
                    ops.extend(_edge_print_ops(rng, hint, dbcs))
                    continue
                ops.append(op)
            elif r < 0.42:
                ops.append(_color_op(rng, hint))
            elif r < 0.48:
                ops.append({'op': 'cls', 'arg': rng.choice(['', '', '0', '1', '2'])})
            elif r < 0.55:
                ops.append(_locate_op(rng, hint))
            elif r < 0.60:
                ops.append(_viewprint_op(rng))
            elif r < 0.64:
                ops.append({'op': 'width', 'n': rng.choice([40, 80, 80, 40, 20, 60])})
                if ops[-1]['n'] in (40, 80):
                    hint.width = ops[-1]['n']
            elif r < 0.72:
                ops.append(_screen_op(rng, hint))
            elif r < 0.76:
                ops.append({'op': 'pcopy', 's': rng.choice([0, 1, 0, 1, 2, 3, 9]), 'd': rng.choice([0, 1, 0, 1, 2, 3, 9])})
            elif r < 0.80:
                ops.append(rng.choice([{'op': 'key', 'v': 'ON'}, {'op': 'key', 'v': 'OFF'},
                                       {'op': 'keydef', 'n': rng.randint(1, 10), 's': _plain(rng, rng.randint(0, 8))}]))
            elif r < 0.88:
                if hint.gm is not None or rng.random() < 0.1:
                    gm = hint.gm or (640, 200, 80)
                    z = rng.random()
                    if z < 0.75:
                        kind, stmt = _gfx_stmt(rng, gm, tier)
                        ops.append({'op': 'gfx', 'kind': kind, 'stmt': stmt})
                    elif z < 0.9:
                        ops.append(_view_op(rng, gm))
                    else:
                        ops.append(_getput_op(rng, gm))
                else:
                    ops.append(_screen_op(rng, hint, want_gfx=True))
            elif r < 0.92:
                ops.append(_typed_op(rng, hint))
            elif r < 0.94:
                ops.append({'op': 'lineinput', 'prompt': _plain(rng, rng.randint(0, 6)), 'keys': _typed_op(rng, hint)['keys'][:40]})
            elif r < 0.96:
                ops.append({'op': 'palette', 'a': rng.choice([None, 0, 1, 3, 7, 15]), 'c': rng.choice([0, 1, 4, 7, 15, 63])})
            elif r < 0.98 and faulty:
                ops.append({'op': 'restart'})
            else:
                ops.append({'op': 'drain'})
        if dbcs:
            # double-byte codepages: more output that ends at the right edge, with few characters
            for _ in range(rng.randint(1, 3)):
                at = rng.randint(len(ops) // 2, len(ops))
                ops[at:at] = _edge_print_ops(rng, hint, dbcs)
        if faulty and rng.random() < 0.5:
            ops.insert(rng.randint(len(ops) // 2, len(ops)), {'op': 'restart'})
    elif prop == 'C36':
        q = rng.random()
        cfg['lag'] = 0 if q < 0.6 else rng.choice([1, 3, 1000])
        n = rng.randint(6, 26) if not long_ else rng.randint(20, 100)
        z = rng.random()
        if rng.random() < 0.3:
            return {'machine': NAME, 'prop': prop, 'cfg': cfg, 'ops': _gen_pages(rng, hint, prop, long_, dbcs, False)}
        if z < 0.25:
            ops.append(_screen_op(rng, hint, pages='same'))
        elif z < 0.35:
            ops.append({'op': 'width', 'n': rng.choice([40, 80])})
            hint.width = ops[-1]['n']
        if rng.random() < 0.6:
            ops.append({'op': 'key', 'v': 'OFF'})
        ops.append({'op': 'cls', 'arg': ''})
        for _ in range(n):
            if rng.random() < 0.05:
                ops.extend(_failed_stmt_block(rng, hint))
                continue
            r = rng.random()
            if r < 0.36:
                op = _print_op(rng, hint, plain_only=True)
                if rng.random() < 0.25:
                    # fill exactly to (or one short of / one past) the right edge
                    c = rng.randint(2, hint.width)
                    ops.append({'op': 'locate', 'r': rng.choice([1, 5, 23, 24, rng.randint(1, 24)]), 'c': c, 'cur': None})
                    k = hint.width - c + 1 + rng.choice([0, 0, 0, -1, 1])
                    op = {'op': 'print', 's': _plain(rng, max(1, k)), 'end': rng.choice([';', ';', ''])}
                    if rng.random() < 0.5:
                        # a cursor movement from the edge position, then where does the next character land?
                        ops.append(op)
                        ops.append({'op': 'print', 's': rng.choice(['\x1c', '\x1d', '\x1e', '\x1f', '\x1c\x1c', '\x1d\x1c', '\x0b', '\t']), 'end': ';'})
                        op = {'op': 'land', 'ch': rng.choice(PLAIN)}
                ops.append(op)
            elif r < 0.42:
                ops.append(_print_op(rng, hint, dbcs=dbcs))
            elif r < 0.56:
                ops.append(_locate_op(rng, hint))
            elif r < 0.66:
                ops.append({'op': 'land', 'ch': rng.choice(PLAIN)})
            elif r < 0.71:
                ops.append({'op': 'cls', 'arg': rng.choice(['', '', '', '2', '0'])})
            elif r < 0.80:
                ops.append(_viewprint_op(rng))
            elif r < 0.86:
                ops.append({'op': 'scrfn', 'cells': [[rng.choice([0, 1, 24, 25, 26, rng.randint(1, 25)]),
                                                      rng.choice([0, 1, hint.width, hint.width + 1, rng.randint(1, hint.width)])]
                                                     for _ in range(rng.randint(1, 6))]})
            elif r < 0.89:
                ops.append({'op': 'width', 'n': rng.choice([40, 80])})
                hint.width = ops[-1]['n']
                ops.append({'op': 'cls', 'arg': ''})
            elif r < 0.92:
                ops.append(_screen_op(rng, hint, pages='same'))
                ops.append({'op': 'cls', 'arg': ''})
            elif r < 0.94:
                ops.append({'op': 'key', 'v': rng.choice(['ON', 'OFF'])})
            elif r < 0.96:
                ops.append(_color_op(rng, hint))
            elif r < 0.98:
                ops.append(_typed_op(rng, hint))
            else:
                ops.append({'op': 'scrollburst', 'n': rng.randint(2, 30), 's': _plain(rng, rng.randint(0, 12))})
    else:   # C30
        cfg['lag'] = 0
        n = rng.randint(6, 24) if not long_ else rng.randint(20, 90)
        if rng.random() < 0.85:
            ops.append(_screen_op(rng, hint, want_gfx=True, pages='explicit'))
        else:
            ops.append({'op': 'print', 's': _plain(rng, 20), 'end': ''})
        for _ in range(n):
            gm = hint.gm or (640, 200, 80)
            r = rng.random()
            if r < 0.50:
                kind, stmt = _gfx_stmt(rng, hint.extent(), tier)
                ops.append({'op': 'gfx', 'kind': kind, 'stmt': stmt})
            elif r < 0.66:
                ops.append(_view_op(rng, gm))
                hint.set_view(ops[-1])
            elif r < 0.70:
                ops.append(_window_op(rng))
            elif r < 0.78:
                ops.append(_getput_op(rng, hint.extent()))
            elif r < 0.88:
                if rng.random() < 0.5:
                    ops.append(_screen_op(rng, hint, want_gfx=None if rng.random() < 0.3 else True, pages='explicit'))
                else:
                    ops.append(dict(_screen_op(rng, hint, pages='explicit'), m=None, cs=None))
            elif r < 0.92:
                ops.append(_print_op(rng, hint))
            elif r < 0.94:
                ops.append({'op': 'pcopy', 's': rng.choice([0, 1, 2]), 'd': rng.choice([0, 1, 2])})
            elif r < 0.96:
                ops.append({'op': 'cls', 'arg': rng.choice(['', '1', '2'])})
            elif r < 0.98:
                ops.append(_color_op(rng, hint))
            else:
                ops.append({'op': 'width', 'n': rng.choice([40, 80])})
    return {'machine': NAME, 'prop': prop, 'cfg': cfg, 'ops': ops}


def _view_op(rng, gm):
    w, h = gm[0], gm[1]
    q = rng.random()
    if q < 0.15:
        return {'op': 'view', 'reset': True}
    if q < 0.8:
        x0, x1 = sorted([rng.randint(0, w - 1), rng.randint(0, w - 1)])
        y0, y1 = sorted([rng.randint(0, h - 1), rng.randint(0, h - 1)])
        if rng.random() < 0.2:
            x0, y0 = rng.choice([0, 1]), rng.choice([0, 1])
        if rng.random() < 0.2:
            x1, y1 = w - rng.choice([1, 2]), h - rng.choice([1, 2])
        if rng.random() < 0.15:
            x0, x1 = x1, x0
    else:
        x0, y0, x1, y1 = (_coord(rng, w), _coord(rng, h), _coord(rng, w), _coord(rng, h))
    return {'op': 'view', 'reset': False, 'screen': rng.random() < 0.35, 'x0': x0, 'y0': y0, 'x1': x1, 'y1': y1,
            'fill': rng.choice([None, None, 0, 1, 2, 3, 15, 255, rng.choice([256, -1, 300])]),
            'border': rng.choice([None, None, 1, 2, 3, 15, 255, rng.choice([256, -1, 1000])])}


def _window_op(rng):
    if rng.random() < 0.25:
        return {'op': 'window', 'reset': True}
    vals = [rng.choice(['-1', '0', '1', '100', '-100', '319', '639', '1E5', '-3.5', '.001', '1000']) for _ in range(4)]
    return {'op': 'window', 'reset': False, 'screen': rng.random() < 0.4, 'v': vals}


def _getput_op(rng, gm):
    w, h = gm[0], gm[1]
    ox = gm[3] if len(gm) > 3 else 0
    oy = gm[4] if len(gm) > 4 else 0
    if rng.random() < 0.4:
        x0 = rng.randint(0, max(0, w - 2))
        y0 = rng.randint(0, max(0, h - 2))
        return {'op': 'get', 'x0': ox + x0, 'y0': oy + y0, 'x1': ox + min(w - 1, x0 + rng.randint(0, 40)),
                'y1': oy + min(h - 1, y0 + rng.randint(0, 30))}
    return {'op': 'put', 'x': ox + _coord(rng, w), 'y': oy + _coord(rng, h),
            'verb': rng.choice(['', 'PSET', 'PRESET', 'XOR', 'OR', 'AND'])}


def simplify(cfg, ops):
    if cfg.get('lag'):
        yield dict(cfg, lag=0), ops
    sess = cfg['session']
    for key, val in (('codepage', '437'), ('monitor', 'rgb'), ('video_memory', 262144), ('text_width', 80), ('box_protect', True)):
        if sess.get(key) != val and not (key == 'monitor' and sess['video'] in ('mda', 'hercules')):
            yield dict(cfg, session=dict(sess, **{key: val})), ops
    for i, op in enumerate(ops):
        k = op['op']
        if k == 'print' and len(op['s']) > 1:
            s = op['s']
            for cand in (s[:len(s) // 2], s[len(s) // 2:], s[1:], s[:-1]):
                if cand:
                    yield cfg, ops[:i] + [dict(op, s=cand)] + ops[i + 1:]
        if k in ('printrep', 'scrollburst') and op['n'] > 1:
            yield cfg, ops[:i] + [dict(op, n=op['n'] // 2)] + ops[i + 1:]
            yield cfg, ops[:i] + [dict(op, n=op['n'] - 1)] + ops[i + 1:]
        if k == 'scrollburst' and op['s']:
            yield cfg, ops[:i] + [dict(op, s='')] + ops[i + 1:]
        if k in ('typed', 'lineinput') and len(op['keys']) > 1:
            s = op['keys']
            for cand in (s[:len(s) // 2], s[len(s) // 2:], s[1:], s[:-1]):
                yield cfg, ops[:i] + [dict(op, keys=cand)] + ops[i + 1:]
        if k == 'screen':
            if op.get('cs') is not None:
                yield cfg, ops[:i] + [dict(op, cs=None)] + ops[i + 1:]
        if k == 'locate' and op.get('cur') is not None:
            yield cfg, ops[:i] + [dict(op, cur=None)] + ops[i + 1:]
        if k == 'breakin':
            if op.get('cont'):
                yield cfg, ops[:i] + [dict(op, cont=False)] + ops[i + 1:]
            ls = op.get('lines') or []
            if len(ls) > 1:
                yield cfg, ops[:i] + [dict(op, lines=ls[:len(ls) // 2])] + ops[i + 1:]
                yield cfg, ops[:i] + [dict(op, lines=ls[len(ls) // 2:])] + ops[i + 1:]
            if op.get('at', 1) > 1:
                yield cfg, ops[:i] + [dict(op, at=op['at'] - 1)] + ops[i + 1:]
        if k == 'pages':
            if op.get('n', 0) > 0:
                yield cfg, ops[:i] + [dict(op, n=op['n'] - 1)] + ops[i + 1:]
            if op.get('cells'):
                yield cfg, ops[:i] + [dict(op, cells=[])] + ops[i + 1:]
            if op.get('ap') is not None:
                yield cfg, ops[:i] + [dict(op, ap=None, vp=None)] + ops[i + 1:]
        if k == 'scrfn' and len(op['cells']) > 1:
            for j in range(len(op['cells'])):
                yield cfg, ops[:i] + [dict(op, cells=op['cells'][:j] + op['cells'][j + 1:])] + ops[i + 1:]


###############################################################################
# helpers

_FONT_CACHE = {}


def _session_kwargs(sess):
    """Session kwargs with codepage table and fonts (file reads cached per process)."""
    from pcbasic import data
    key = (sess['codepage'], tuple(FONTS[sess['video']]))
    if key not in _FONT_CACHE:
        cpd = data.read_codepage(sess['codepage'])
        _FONT_CACHE[key] = (cpd, data.read_fonts(cpd, FONTS[sess['video']]))
    cpd, fonts = _FONT_CACHE[key]
    return {
        'video': sess['video'], 'monitor': sess['monitor'], 'text_width': sess['text_width'],
        'video_memory': sess['video_memory'], 'syntax': sess['syntax'], 'box_protect': sess['box_protect'],
        'codepage': dict(cpd), 'font': {h: (dict(fd) if fd else fd) for h, fd in fonts.items()},
        'peek_values': {},
    }


def strexpr(s):
    """BASIC string expression for a latin-1 str."""
    parts = []
    run = []
    for ch in s:
        o = ord(ch)
        if 32 <= o < 127 and o != 34:
            run.append(ch)
        else:
            if run:
                parts.append('"%s"' % ''.join(run))
                run = []
            parts.append('CHR$(%d)' % o)
    if run:
        parts.append('"%s"' % ''.join(run))
    return '+'.join(parts) if parts else '""'


def _is_plain(s):
    return all(32 <= ord(ch) < 127 for ch in s)


def _rows_bytes(px):
    return tuple(bytes(r) for r in px)


def _first_diff(a, bb):
    """(y, x, a-value, b-value) of the first differing element of two equal-shape row tuples."""
    for y, (ra, rb) in enumerate(zip(a, bb)):
        if ra != rb:
            for x in range(min(len(ra), len(rb))):
                if ra[x] != rb[x]:
                    return y, x, ra[x], rb[x]
            return y, min(len(ra), len(rb)), None, None
    return None


def _diff_bbox(a, bb, width):
    """Bounding box (x0, y0, x1, y1) of differing bytes between two byte strings of rows."""
    if a == bb:
        return None
    h = len(a) // width
    x0 = y0 = None
    x1 = y1 = -1
    for y in range(h):
        ra = a[y * width:(y + 1) * width]
        rb = bb[y * width:(y + 1) * width]
        if ra == rb:
            continue
        z = int.from_bytes(ra, 'big') ^ int.from_bytes(rb, 'big')
        first = width - ((z.bit_length() + 7) // 8)
        last = width - 1 - (((z & -z).bit_length() - 1) // 8)
        if y0 is None:
            y0 = y
        y1 = y
        x0 = first if x0 is None else min(x0, first)
        x1 = max(x1, last)
    return x0, y0, x1, y1


class KeyFeeder(object):
    """Poll hook that types keys in small chunks whenever the engine has consumed the previous ones."""

    def __init__(self, driver, keys, quit_at_prompt, chunk=6):
        self.d = driver
        self.keys = list(keys)
        self.chunk = chunk
        self.quit_at_prompt = quit_at_prompt
        self.done = False
        self.idle = 0
        self.nudges = 0

    def __call__(self, w):
        if self.done:
            return
        kb = self.d.s._impl.keyboard   # read for scheduling only
        if not (kb.buf.empty and not kb._stream_buffer and not kb._expansion_vessel) or w.inputs.pending:
            self.idle = 0
            return
        if self.keys:
            for ch in self.keys[:self.chunk]:
                w.inputs.pending.append(K.sig_key(ch, None, ()))
            del self.keys[:self.chunk]
            self.idle = 0
            return
        if self.quit_at_prompt:
            if not self.d.s._impl.interpreter.parse_mode:
                self.done = True
                w.inputs.pending.append(K.sig_quit())
            else:
                self.idle += 1
                if self.idle > 200:
                    self.idle = 0
                    self.nudges += 1
                    w.inputs.pending.append(K.sig_break() if self.nudges > 2 else K.sig_key(u'\r', None, ()))
        else:
            # a statement is blocked on input: finish the line, eventually break
            self.idle += 1
            if self.idle > 50:
                self.idle = 0
                self.nudges += 1
                if self.nudges > 6:
                    raise K.SimAbort('input never completes')
                w.inputs.pending.append(K.sig_break() if self.nudges > 3 else K.sig_key(u'\r', None, ()))


###############################################################################
# reference model of text placement (C36)

class TextModel(object):
    """Deferred-wrap placement model. None fields mean 'not known - resynchronise'."""

    def __init__(self):
        self.h = self.w = None
        self.grid = None
        self.row = self.col = None
        self.pending = None
        self.win_active = False
        self.top, self.bottom = 1, 24

    def set_size(self, h, w):
        if (h, w) != (self.h, self.w):
            self.h, self.w = h, w
            self.grid = None
            self.row = self.col = None
            self.pending = None
        # a mode change resets the scroll window
        self.win_active = False
        self.top, self.bottom = 1, h - 1

    def resync_grid(self, chars):
        self.h, self.w = len(chars), len(chars[0])
        self.grid = [bytearray(b''.join(r)) for r in chars]

    def resync_cursor(self, r, c):
        self.row, self.col = r, c
        # reported column 1 may be the overflow state of the previous row
        self.pending = None if c == 1 else False

    def forget(self):
        self.grid = None
        self.row = self.col = None
        self.pending = None

    def cursor_known(self):
        return self.row is not None and self.pending is not None

    def landing(self):
        """Where the next character lands."""
        if not self.cursor_known():
            return None
        if self.pending:
            return (self.row + 1 if self.row < self.bottom else self.bottom), 1
        return self.row, self.col

    def _advance(self):
        if self.row == self.bottom:
            self.grid[self.top - 1:self.bottom] = self.grid[self.top:self.bottom] + [bytearray(b' ' * self.w)]
        else:
            self.row += 1

    def can_predict(self, n, newline):
        if self.grid is None or not self.cursor_known():
            return False
        if not (self.top <= self.row <= self.bottom):
            return False
        if n and not self.pending and self.col != 1 and self.col - 1 + n > self.w:
            # string does not fit the rest of the line: break-before-print rule not modelled
            return False
        return True

    def put(self, bs, newline):
        """Apply PRINT bs[;]. Returns False when the result is not predicted (caller resyncs)."""
        if not self.can_predict(len(bs), newline):
            return False
        for ch in bs:
            if self.pending:
                self._advance()
                self.col = 1
                self.pending = False
            self.grid[self.row - 1][self.col - 1] = ch
            if self.col < self.w:
                self.col += 1
            else:
                self.pending = True
        if newline:
            if self.pending:
                # one or two line advances: not specified
                return False
            self._advance()
            self.col = 1
        return True


###############################################################################
# the run

class Ctx(object):
    pass


def run(case):
    def body(run):
        _body(run, case)
    return execute(case, body, world_cfg=case['cfg'].get('world', {}))


def _body(run, case):
    cfg = case['cfg']
    prop = case['prop']
    sess = cfg['session']
    w = run.w
    lag = int(cfg.get('lag', 0))
    c = Ctx()
    c.run, c.w, c.prop, c.lag = run, w, prop, lag
    c.disp = RefDisplay()
    w.video.consumer = c.disp
    w.video.lag = lag
    w.video.record = []
    scratch = None
    with w:
        c.d = Driver(w, **_session_kwargs(sess))
        # model state
        c.text_mode = True           # known from successful SCREEN ops / initial mode
        c.apage = c.vpage = 0        # None = not known
        c.av_same = False            # True: active == visible although the numbers are not known
        c.pg = {}                    # page number -> rows (bytes) last written on a page that is not the active one
        c.hidden_written = set()     # pages whose reference includes placement predictions made while hidden
        c.lineclear_in_window = False   # input shape: Esc / Ctrl+End in the line editor while VIEW PRINT is active
        c.viewport = None            # None = whole screen; else (x0, y0, x1, y1)
        c.tm = TextModel()
        c.since_drain = 0
        c.compares = 0
        c.prev_kind = 'start'
        _scan_signals(c)
        if prop == 'C36':
            _resync_text(c)
        if prop == 'C35':
            _drain_and_compare(c, 'start')
        for op in case['ops']:
            kind = op['op']
            run.state(prop, sess['video'], c.text_mode, c.disp.mode, kind, c.prev_kind,
                      c.tm.win_active, c.apage != c.vpage, min(lag, 7))
            if kind == 'restart':
                if scratch is None:
                    scratch = run.make_scratch()
                _op_restart(c, os.path.join(scratch, 'state.bin'))
            else:
                HANDLERS[kind](c, op)
            c.prev_kind = kind
            # cheap invariant for every run: cursor inside the screen
            _check_cursor_bounds(c)
            if prop == 'C36' and c.apage is not None and c.vpage is not None and c.apage != c.vpage:
                # the visible page is not the active one: nothing but PCOPY may have changed it
                _verify_visible(c, kind)
            if prop == 'C35':
                c.since_drain += 1
                if lag == 0 or kind == 'drain' or (lag < 1000 and c.since_drain >= lag):
                    _drain_and_compare(c, kind)
            elif lag:
                w.video.drain()
        # end of run: always a full drain and comparison
        _drain_and_compare(c, 'end')
        if w.stats.get('max_video_backlog', 0) > 0:
            run.fault('consumer-lag')
        if w.stats.get('max_video_backlog', 0) > 200:
            run.probe('backlog>200 (engine back-pressure loop ran)')
        run.probe('comparisons', c.compares)
        for a in c.disp.anomalies:
            run.probe('consumer-anomaly: ' + a.split(':')[0])
        c.d.close()


###############################################################################
# observation helpers

def _scan_signals(c):
    """Look at the signals emitted since the last scan; returns True if a mode was set."""
    mode_set = False
    for sig in c.w.video.record:
        t = sig.event_type
        if t == 'set_mode':
            mode_set = True
            c.mode_geom = sig.params
        elif t == 'scroll' and sig.params[3]:
            c.run.probe('scroll with non-zero background attribute')
    del c.w.video.record[:]
    if mode_set:
        c.viewport = None
        c.tm.set_size(c.mode_geom[2], c.mode_geom[3])
        c.tm.forget()
        # a mode change rebuilds every page: no page has a reference content any more
        c.pg.clear()
        c.hidden_written.clear()
        c.lineclear_in_window = False
    return mode_set


def _cursor(c):
    r = c.d.eval(b'CSRLIN')
    col = c.d.eval(b'POS(0)')
    return r, col


def _vis(c):
    """True when the active page is known to be the visible one (so get_chars() shows it)."""
    return (c.apage is not None and c.apage == c.vpage) or c.av_same is True


def _resync_text(c):
    """Take the active page's content and the cursor from the engine (returns get_chars() or None)."""
    if _vis(c):
        chars = c.d.chars()
        c.tm.resync_grid(chars)
    else:
        # get_chars() shows another page; the content is learnt when the page is next visited
        chars = None
        c.tm.grid = None
    if c.apage is not None:
        c.hidden_written.discard(c.apage)
    r, col = _cursor(c)
    c.tm.resync_cursor(r, col)
    return chars


def _snapshot(grid):
    return None if grid is None else [bytes(r) for r in grid]


def _verify_visible(c, why, active_sig=None):
    """
    get_chars() shows the visible page. If that page has a reference content (the characters last
    written or copied there) it must show exactly that; otherwise the reading is taken on trust
    and becomes the reference.
    """
    tm = c.tm
    if _vis(c):
        page = c.apage
        want = _snapshot(tm.grid)
        if active_sig is not None:
            sig = active_sig
        elif page in c.hidden_written:
            sig = 'pages:hidden-active-page-differs-from-reference-model'
        else:
            sig = 'pages:page-changed-while-not-active'
    elif c.apage is not None and c.vpage is not None:
        page = c.vpage
        want = c.pg.get(page)
        sig = 'pages:visible-non-active-page-changed'
    else:
        return
    chars = c.d.chars()
    obs = [b''.join(r) for r in chars]
    if want is not None and len(want) == len(obs) and len(want[0]) == len(obs[0]):
        c.compares += 1
        c.run.probe('page content compared with its reference')
        if want != obs:
            y = [i for i in range(len(obs)) if obs[i] != want[i]][0]
            x = [i for i in range(len(obs[y])) if obs[y][i] != want[y][i]][0]
            c.run.violate('C36', sig,
                          'after %r: page %r (active %r, visible %r) row %d col %d holds %r, last written there: %r'
                          '\n got  %r\n want %r' % (why, page, c.apage, c.vpage, y + 1, x + 1,
                                                   obs[y][x:x + 1], want[y][x:x + 1], obs[y], want[y]))
    if _vis(c):
        tm.resync_grid(chars)
        if page is not None:
            c.hidden_written.discard(page)
    else:
        c.pg[page] = obs


def _switch_page_model(c, old_ap, why):
    """After a successful page switch without mode change: bring the reference contents along."""
    tm = c.tm
    new_ap = c.apage
    if new_ap != old_ap or new_ap is None:
        # another page becomes the active one: park the old reference, fetch the new page's
        if old_ap is None:
            c.pg.clear()
        elif tm.grid is not None:
            c.pg[old_ap] = _snapshot(tm.grid)
        else:
            c.pg.pop(old_ap, None)
        known = c.pg.pop(new_ap, None) if new_ap is not None else None
        tm.grid = None if known is None else [bytearray(r) for r in known]
    _verify_visible(c, why)
    # where the cursor is after a page switch is not stated: take it from CSRLIN/POS
    tm.resync_cursor(*_cursor(c))


def _check_cursor_bounds(c):
    r, col = _cursor(c)
    chars_h = c.mode_geom[2]
    chars_w = c.mode_geom[3]
    if not (isinstance(r, int) and isinstance(col, int) and 1 <= r <= chars_h and 1 <= col <= chars_w):
        c.run.violate('C36', 'cursor:csrlin-pos-outside-screen',
                      'CSRLIN=%r POS(0)=%r on a %dx%d screen after op %r' % (r, col, chars_h, chars_w, c.prev_kind))
    c.last_cursor = (r, col)


def _page_bytes(c, n=None):
    """Pixel buffers of all pages (or page n) as bytes, via the accessor get_pixels() uses."""
    pages = c.d.s._impl.display.pages
    if n is not None:
        return pages[n].pixels[:, :].to_bytes()
    return [p.pixels[:, :].to_bytes() for p in pages]


def _drain_and_compare(c, label):
    """Drain the backlog completely and compare display with engine (C35)."""
    c.w.video.drain()
    c.since_drain = 0
    run = c.run
    disp = c.disp
    px = _rows_bytes(c.d.pixels())
    ref = disp.pixel_rows()
    c.compares += 1
    where = 'after op %r (lag %d)' % (label, c.lag)
    if c.prop == 'C30' and c.vpage is not None and c.text_mode is not None:
        # the page accessor used by the C30 snapshots must show what the public API shows
        if b''.join(px) != _page_bytes(c, c.vpage):
            raise K.HarnessError('page accessor for visible page %r disagrees with get_pixels() %s' % (c.vpage, where))
    if len(px) != len(ref) or (px and len(px[0]) != len(ref[0])):
        run.violate('C35', 'geometry:canvas-size-differs',
                    'display canvas %dx%d, get_pixels %dx%d %s' % (
                        len(ref), len(ref[0]) if ref else 0, len(px), len(px[0]) if px else 0, where))
        return
    if px != ref:
        y, x, ev, dv = _first_diff(px, ref)
        tr, tc = y // disp.font_height, x // disp.font_width
        tag = disp.tag_at(tr, tc)
        sig = 'pixels:' + tag
        if tag.startswith('scroll') and ev == 0 and dv != 0:
            sig += ':engine-0-display-background-attr'
        ndiff = sum(1 for a, bb in zip(px, ref) if a != bb)
        run.violate('C35', sig,
                    'first differing pixel y=%d x=%d (text cell %d,%d): get_pixels=%r display=%r; %d pixel rows differ; '
                    'cell last touched by %s; mode %r %s' % (y, x, tr + 1, tc + 1, ev, dv, ndiff, tag, disp.mode, where))
        resync_px = px
    else:
        resync_px = None
    tx = c.d.s.get_chars(as_type=type(u''))
    rt = disp.text_rows()
    if tx != rt:
        d0 = _first_diff(tx, rt)
        if d0 is None:
            run.violate('C35', 'geometry:text-size-differs', 'text grid sizes differ %s' % where)
        else:
            y, x, ev, dv = d0
            tag = disp.tag_at(y, x)
            run.violate('C35', 'text:' + tag,
                        'first differing cell row=%d col=%d: get_chars=%r display=%r; cell last touched by %s; mode %r %s' % (
                            y + 1, x + 1, ev, dv, tag, disp.mode, where))
        resync_tx = tx
    else:
        resync_tx = None
    # the default (bytes) view of get_chars against the displayed characters, where decidable:
    # a displayed printable-ASCII character must be that byte; under codepage 437 a printable-ASCII
    # byte must be displayed as that character (other codepages substitute glyphs for some ASCII
    # bytes, and DBCS trail bytes are in the ASCII range)
    tb = c.d.chars()
    shown = disp.text_rows()
    cp437 = c.run.case['cfg']['session']['codepage'] == '437'
    done = False
    for y, (rb, ru) in enumerate(zip(tb, shown)):
        for x, (cb, cu) in enumerate(zip(rb, ru)):
            if len(cu) == 1 and 32 < ord(cu) < 127:
                bad = cb != cu.encode('ascii')
            else:
                bad = cp437 and 32 < ord(cb) < 127
            if bad:
                tag = disp.tag_at(y, x)
                if c.lineclear_in_window:
                    tag += c.lineclear_in_window
                run.violate('C35', 'chars:' + tag,
                            'row=%d col=%d: get_chars() reports %r, the display shows %r (get_chars(unicode) %r); '
                            'cell last touched by %s; mode %r %s' % (y + 1, x + 1, cb, cu, tx[y][x], tag, disp.mode, where))
                done = True
                break
        if done:
            break
    # after a reported mismatch bring the display back in line, so that later ones show separately
    if resync_px is not None or resync_tx is not None:
        disp.resync(pixel_rows=resync_px, text_rows=resync_tx)
    if disp.cursor_visible and disp.cursor_pos is not None and disp.mode is not None:
        r, col = disp.cursor_pos
        if not (1 <= r <= disp.mode[2] and 1 <= col <= disp.mode[3]):
            run.violate('C36', 'cursor:display-cursor-outside-screen',
                        'visible cursor at %r on a %dx%d text screen %s' % (disp.cursor_pos, disp.mode[2], disp.mode[3], where))


###############################################################################
# op handlers

def _exec(c, line, poll_cap=20000):
    r = c.d.exec(b(line), poll_cap=poll_cap)
    return r


def _after_text_op(c, r, predicted):
    """Common C36 bookkeeping after an op that may have changed text/cursor."""
    mode_set = _scan_signals(c)
    if c.prop != 'C36':
        return
    if mode_set or not predicted:
        _resync_text(c)


def _h_print(c, op, text=None, end=None):
    s = op['s'] if text is None else text
    end = op.get('end', '') if end is None else end
    stmt = 'PRINT ' + strexpr(s) + end
    _do_print(c, stmt, s, end, plain=_is_plain(s))


def _h_printrep(c, op):
    n = max(1, min(255, int(op['n'])))
    s = op['ch'] * n
    stmt = 'PRINT STRING$(%d,"%s")%s' % (n, op['ch'], op.get('end', ''))
    _do_print(c, stmt, s, op.get('end', ''), plain=True)


def _do_print(c, stmt, s, end, plain):
    tm = c.tm
    judge = c.prop == 'C36'
    before = None
    watch_outside = False
    vis = _vis(c)
    if judge:
        watch_outside = vis and tm.win_active and tm.row is not None and tm.top <= tm.row <= tm.bottom
        if watch_outside:
            before = c.d.chars()
    r = _exec(c, stmt)
    mode_set = _scan_signals(c)
    if not judge:
        return
    if mode_set or r.err is not None:
        _resync_text(c)
        return
    predicted = plain and end in ('', ';') and tm.put(b(s), end == '')
    if tm.pending:
        c.run.probe('column-80 overflow state reached')
    if not vis:
        # the active page is hidden: get_chars() shows another page. The placement model carries the
        # reference content on; it is compared when the page is next shown and by SCREEN(r,c).
        if predicted:
            c.run.probe('placement predicted on a hidden active page')
            if c.apage is not None:
                c.hidden_written.add(c.apage)
            rep = _cursor(c)
            land = tm.landing()
            if land is not None and rep != land:
                c.run.violate('C36', 'cursor:csrlin-pos-disagree-with-next-character-position',
                              'after %r on hidden active page %r: CSRLIN,POS=%r, reference model says the next character '
                              'lands at %r (pending wrap: %r)' % (stmt[:60], c.apage, rep, land, tm.pending))
                tm.resync_cursor(*rep)
        else:
            tm.grid = None
            tm.resync_cursor(*_cursor(c))
        return
    after = c.d.chars()
    if watch_outside:
        for y in list(range(0, tm.top - 1)) + list(range(tm.bottom, tm.h)):
            if before[y] != after[y]:
                c.run.violate('C36', 'placement:row-outside-view-print-window-changed',
                              'VIEW PRINT %d TO %d active, cursor started inside; %r changed row %d from %r to %r' % (
                                  tm.top, tm.bottom, stmt[:60], y + 1, b''.join(before[y]), b''.join(after[y])))
                break
    if predicted:
        got = [b''.join(row) for row in after]
        want = [bytes(row) for row in tm.grid]
        c.compares += 1
        if got != want:
            for y in range(len(want)):
                if got[y] != want[y]:
                    x = [i for i in range(len(want[y])) if got[y][i] != want[y][i]][0]
                    break
            c.run.violate('C36', 'placement:text-not-at-reference-position',
                          '%r (len %d) on %dx%d, window %d-%d: row %d col %d holds %r, reference model %r\n got  %r\n want %r' % (
                              stmt[:60], len(s), tm.h, tm.w, tm.top, tm.bottom, y + 1, x + 1,
                              got[y][x:x + 1], want[y][x:x + 1], got[y], want[y]))
            tm.resync_grid(after)
        rep = _cursor(c)
        land = tm.landing()
        if land is not None and rep != land:
            c.run.violate('C36', 'cursor:csrlin-pos-disagree-with-next-character-position',
                          'after %r: CSRLIN,POS=%r, reference model says the next character lands at %r (pending wrap: %r)' % (
                              stmt[:60], rep, land, tm.pending))
            tm.resync_cursor(*rep)
    else:
        tm.resync_grid(after)
        tm.resync_cursor(*_cursor(c))


def _h_scrollburst(c, op):
    """Many short PRINTs in one statement (scrolling)."""
    n = max(1, int(op['n']))
    stmt = 'FOR I%%=1 TO %d:PRINT %s;I%%:NEXT' % (n, strexpr(op['s']))
    _exec(c, stmt, poll_cap=20000 + 10 * n)
    _after_text_op(c, None, False)


def _h_land(c, op):
    """Landing probe: the next character lands where CSRLIN/POS say."""
    ch = op['ch']
    if c.prop != 'C36':
        _h_print(c, op, text=ch, end=';')
        return
    rep = _cursor(c)
    tm = c.tm
    _do_print(c, 'PRINT "%s";' % ch, ch, ';', plain=True)
    if c.tm.h is None or not isinstance(rep[0], int):
        return
    R, C = rep
    if not _vis(c):
        # hidden active page: only SCREEN(r,c) can see the cell
        if 1 <= R <= c.tm.h and 1 <= C <= c.tm.w:
            v = c.d.eval(b'SCREEN(%d,%d)' % (R, C))
            if v is not None:
                c.compares += 1
                if v != ord(ch):
                    sig = 'landing:character-not-at-csrlin-pos'
                    if R == c.tm.h:
                        sig += ':bottom-row'
                    c.run.violate('C36', sig,
                                  'hidden active page %r: CSRLIN,POS reported %r; PRINT "%s"; then SCREEN(%d,%d)=%r; window %d-%d' % (
                                      c.apage, rep, ch, R, C, v, tm.top, tm.bottom))
        return
    chars = c.d.chars()
    if 1 <= R <= len(chars) and 1 <= C <= len(chars[0]):
        c.compares += 1
        got = chars[R - 1][C - 1]
        if got != b(ch):
            where = None
            for y, row in enumerate(chars):
                if b(ch) in row:
                    where = (y + 1, row.index(b(ch)) + 1)
                    break
            sig = 'landing:character-not-at-csrlin-pos'
            if R == len(chars):
                sig += ':bottom-row'
            c.run.violate('C36', sig,
                          'CSRLIN,POS reported %r; PRINT "%s"; then cell holds %r (first %r on screen at %r); window %d-%d' % (
                              rep, ch, got, ch, where, tm.top, tm.bottom))
        v = c.d.eval(b'SCREEN(%d,%d)' % (R, C))
        if v is not None and v != ord(got):
            c.run.violate('C36', 'screenfn:differs-from-get-chars',
                          'SCREEN(%d,%d)=%r, get_chars cell %r' % (R, C, v, got))


def _h_cls(c, op):
    tm = c.tm
    arg = op.get('arg', '')
    judge = c.prop == 'C36'
    before = None
    if judge and tm.win_active and arg in ('', '2') and _vis(c):
        before = c.d.chars()
    r = _exec(c, 'CLS ' + arg if arg else 'CLS')
    mode_set = _scan_signals(c)
    if not judge:
        return
    after = _resync_text(c)
    if before is not None and after is not None and r.err is None and not mode_set:
        for y in list(range(0, tm.top - 1)) + list(range(tm.bottom, tm.h)):
            if before[y] != after[y]:
                c.run.violate('C36', 'placement:row-outside-view-print-window-changed',
                              'VIEW PRINT %d TO %d active; CLS %s changed row %d from %r to %r' % (
                                  tm.top, tm.bottom, arg, y + 1, b''.join(before[y]), b''.join(after[y])))
                break
    # after a clear the cursor is not in an overflow state
    if r.err is None and arg in ('', '0', '2') and tm.row is not None and tm.pending is None:
        tm.pending = False


def _h_color(c, op):
    r = _exec(c, 'COLOR ' + op['args'])
    mode_set = _scan_signals(c)
    if c.prop == 'C36' and (r.err is not None or mode_set):
        _resync_text(c)


def _h_locate(c, op):
    r_, c_ = op.get('r'), op.get('c')
    stmt = 'LOCATE %s,%s' % ('' if r_ is None else r_, '' if c_ is None else c_)
    if op.get('cur') is not None:
        stmt += ',%d' % op['cur']
    stmt = stmt.rstrip(',') if (r_ is not None or c_ is not None or op.get('cur') is not None) else 'LOCATE 1,1'
    tm = c.tm
    trapped = bool(op.get('trap')) and c.prop == 'C36'
    if trapped:
        # run the statement from a stored program with the error trapped: no message is printed, so
        # "a failed statement changes nothing" can be judged and the placement model carries on
        before = _cursor(c)
        c.d.exec(b'NEW')
        c.d.exec(b'10 E%=-2:L%=0:ON ERROR GOTO 30:' + b(stmt) + b':E%=-1')
        c.d.exec(b'20 GOTO 40')
        c.d.exec(b'30 E%=ERR:L%=ERL:RESUME 40')
        c.d.exec(b'40 ON ERROR GOTO 0:END')
        res = _exec(c, 'GOTO 10')
        errcode = c.d.get(b'E%')
        if _scan_signals(c) or res.err is not None or errcode == -2 or (errcode != -1 and c.d.get(b'L%') != 10):
            c.run.probe('trapped program failed')
            _resync_text(c)
            return
        res = FakeRes(None if errcode == -1 else errcode)
    else:
        res = _exec(c, stmt)
        _scan_signals(c)
    if c.prop != 'C36':
        return
    rep = _cursor(c)
    c.compares += 1
    if res.err is not None:
        if res.err != 5:
            c.run.violate('C36', 'locate:error-other-than-5', '%r gave error %r' % (stmt, res.errs))
        if trapped:
            # nothing was printed: the cursor is where it was and the model is still valid
            c.run.probe('failed LOCATE with the error trapped')
            if rep != before:
                c.run.violate('C36', 'locate:failed-locate-moved-cursor',
                              '%r failed with error %r but CSRLIN,POS went from %r to %r' % (stmt, res.err, before, rep))
                _resync_text(c)
            return
        # the error message was printed on the screen: ordinary output, which stays in the scroll area
        if tm.cursor_known() and tm.top <= tm.row <= tm.bottom and tm.h is not None:
            if not (tm.top <= rep[0] <= tm.bottom):
                c.run.violate('C36', 'cursor:error-message-left-the-scroll-area',
                              '%r failed with the cursor at row %d inside the scroll area %d-%d; after the error message '
                              'CSRLIN,POS=%r' % (stmt, tm.row, tm.top, tm.bottom, rep))
            if tm.grid is not None and _vis(c):
                after = [b''.join(row) for row in c.d.chars()]
                if len(after) == len(tm.grid):
                    for y in list(range(0, tm.top - 1)) + list(range(tm.bottom, tm.h)):
                        if after[y] != bytes(tm.grid[y]):
                            c.run.violate('C36', 'placement:error-message-changed-row-outside-scroll-area',
                                          '%r failed with the cursor at row %d, scroll area %d-%d; row %d changed from %r to %r' % (
                                              stmt, tm.row, tm.top, tm.bottom, y + 1, bytes(tm.grid[y]), after[y]))
                            break
        _resync_text(c)
        return
    outside = (r_ is not None and not 1 <= r_ <= tm.h) or (c_ is not None and not 1 <= c_ <= tm.w)
    if outside:
        c.run.violate('C36', 'locate:accepted-position-outside-screen',
                      '%r accepted on a %dx%d screen; CSRLIN,POS now %r' % (stmt, tm.h, tm.w, rep))
        tm.resync_cursor(*rep)
        return
    if r_ is not None and c_ is not None:
        if rep != (r_, c_):
            sig = 'locate:cursor-not-at-requested-cell'
            if c_ == tm.w:
                sig += ':last-column'
            c.run.violate('C36', sig,
                          '%r succeeded but CSRLIN,POS=%r (model before: row %r col %r pending-wrap %r)' % (
                              stmt, rep, tm.row, tm.col, tm.pending))
            tm.resync_cursor(*rep)
        else:
            tm.row, tm.col, tm.pending = r_, c_, False
    else:
        tm.resync_cursor(*rep)


def _h_viewprint(c, op):
    a, bt = op.get('a'), op.get('b')
    if a is None:
        res = _exec(c, 'VIEW PRINT')
    else:
        res = _exec(c, 'VIEW PRINT %d TO %d' % (a, bt))
    _scan_signals(c)
    tm = c.tm
    if res.err is None:
        if a is None:
            tm.win_active = False
            tm.top, tm.bottom = 1, (tm.h or 25) - 1
        else:
            tm.win_active = True
            tm.top, tm.bottom = a, bt
    if c.prop == 'C36':
        if res.err is not None:
            _resync_text(c)
            return
        rep = _cursor(c)
        tm.resync_cursor(*rep)
        if a is not None:
            # VIEW PRINT homes the cursor: no overflow state
            if tm.pending is None:
                tm.pending = False


def _h_width(c, op):
    _exec(c, 'WIDTH %d' % op['n'])
    if _scan_signals(c):
        c.apage = c.vpage = 0
        c.av_same = False
        # text/graphics kind is kept by WIDTH except where the adapter table maps to mode 0;
        # find out from the BIOS mode byte (BASIC-visible) rather than guess
        c.text_mode = _peek_text_mode(c)
    if c.prop == 'C36':
        _resync_text(c)


def _peek_text_mode(c):
    c.d.exec(b'DEF SEG=0')
    v = c.d.eval(b'PEEK(1125)')
    c.d.exec(b'DEF SEG')
    return None if v is None else not (int(v) & 2)


def _h_screen(c, op):
    m, cs, ap, vp = op.get('m'), op.get('cs'), op.get('ap'), op.get('vp')
    args = ['' if x is None else str(x) for x in (m, cs, ap, vp)]
    while args and args[-1] == '':
        args.pop()
    if not args:
        args = ['0']
    stmt = 'SCREEN ' + ','.join(args)
    res = _exec(c, stmt)
    mode_set = _scan_signals(c)
    old_ap = c.apage
    if res.err is None:
        if m is not None:
            c.text_mode = (m == 0)
        if ap is not None:
            c.apage = ap
            c.vpage = vp if vp is not None else ap
            c.av_same = False
        elif vp is not None:
            c.vpage = vp
            c.av_same = False
        elif mode_set and c.d.kwargs.get('video') == 'pcjr':
            # pages persist over a mode switch; PCjr may reset them: not known without being told
            # (both go back to 0 or neither does, so pages that were the same stay the same)
            c.av_same = _vis(c)
            c.apage = c.vpage = None
    elif mode_set:
        c.text_mode = _peek_text_mode(c)
        c.apage = c.vpage = None
        c.av_same = False
    if c.prop == 'C36':
        if res.err is None and not mode_set:
            # page switch (or nothing): every page keeps its content
            if ap is not None or vp is not None:
                c.run.probe('page switch without mode change')
            _switch_page_model(c, old_ap, stmt)
        else:
            # mode change: all forgotten; error: its message was printed on the active page
            _resync_text(c)
    return res


def _h_pcopy(c, op):
    """PCOPY s,d: page d holds what page s holds at this instant; no other page changes."""
    src, dst = op['s'], op['d']
    stmt = 'PCOPY %d,%d' % (src, dst)
    res = _exec(c, stmt)
    mode_set = _scan_signals(c)
    if c.prop != 'C36':
        return
    tm = c.tm
    if mode_set or res.err is not None:
        # (whether a page number is valid is the adapter's business: an error is accepted for any
        # pair, and then no page changes except for the message printed on the active page)
        _resync_text(c)
        return
    ap = c.apage
    if ap is None:
        # which page is the active one is not known: neither is what was copied where
        c.pg.clear()
        c.hidden_written.clear()
        _resync_text(c)
        return
    c.run.probe('PCOPY succeeded')
    if src != dst:
        content = _snapshot(tm.grid) if src == ap else c.pg.get(src)
        if src in c.hidden_written:
            c.hidden_written.add(dst)
        else:
            c.hidden_written.discard(dst)
        if dst == ap:
            tm.grid = None if content is None else [bytearray(r) for r in content]
        elif content is None:
            c.pg.pop(dst, None)
        else:
            c.pg[dst] = content
            c.run.probe('PCOPY with known source content')
    # nothing was printed: the cursor model stays; the copy itself is looked at when visible
    if _vis(c):
        _verify_visible(c, stmt, active_sig='pages:pcopy-destination-differs-from-source' if dst == ap and src != dst
                        else 'pages:pcopy-changed-a-page-other-than-destination')


def _h_key(c, op):
    _exec(c, 'KEY ' + op['v'])
    _after_text_op(c, None, False)


def _h_keydef(c, op):
    _exec(c, 'KEY %d,%s' % (op['n'], strexpr(op['s'])))
    _after_text_op(c, None, False)


def _h_palette(c, op):
    if op.get('a') is None:
        _exec(c, 'PALETTE')
    else:
        _exec(c, 'PALETTE %d,%d' % (op['a'], op['c']))
    _scan_signals(c)


def _h_drain(c, op):
    c.w.video.drain()


def _h_scrfn(c, op):
    """SCREEN(r,c) against get_chars and the model grid."""
    tm = c.tm
    chars = c.d.chars()
    h, wd = len(chars), len(chars[0])
    for r_, c_ in op['cells']:
        v = c.d.eval(b'SCREEN(%d,%d)' % (r_, c_))
        c.compares += 1
        inside = 1 <= r_ <= h and 1 <= c_ <= wd
        if v is None:
            # an error: its message was printed on the screen
            chars = c.d.chars()
            if c.prop == 'C36':
                _resync_text(c)
            continue
        if not inside:
            # row/col 0 are aliases of 1 in this implementation: not judged
            if r_ > h or c_ > wd or r_ < 0 or c_ < 0:
                c.run.violate('C36', 'screenfn:value-for-cell-outside-screen',
                              'SCREEN(%d,%d)=%r on a %dx%d screen' % (r_, c_, v, h, wd))
            continue
        got = chars[r_ - 1][c_ - 1]
        if _vis(c) and v != ord(got):
            c.run.violate('C36', 'screenfn:differs-from-get-chars',
                          'SCREEN(%d,%d)=%r, get_chars cell %r' % (r_, c_, v, got))
        if c.prop == 'C36' and tm.grid is not None and tm.h == h and tm.w == wd:
            if not _vis(c):
                c.run.probe('SCREEN(r,c) on a hidden active page compared with its reference')
            if v != tm.grid[r_ - 1][c_ - 1]:
                c.run.violate('C36', 'screenfn:not-the-character-last-written',
                              'SCREEN(%d,%d)=%r on active page %r (visible %r), reference model cell %r' % (
                                  r_, c_, v, c.apage, c.vpage, tm.grid[r_ - 1][c_ - 1]))


def _h_pages(c, op):
    """
    Sweep: show pages 0..n-1 one after the other (SCREEN ,,p,p) and read each through get_chars()
    and SCREEN(r,c); then go to the (active, visible) pair the op names.  The comparison with each
    page's reference content happens in the page switch itself (_switch_page_model).
    """
    for p in range(max(0, min(int(op.get('n', 0)), 16))):
        res = _h_screen(c, {'m': None, 'cs': None, 'ap': p, 'vp': p})
        if res.err is not None:
            break
        if op.get('cells'):
            _h_scrfn(c, {'cells': op['cells']})
    if op.get('ap') is not None:
        _h_screen(c, {'m': None, 'cs': None, 'ap': op['ap'], 'vp': op.get('vp')})


def _h_breakin(c, op):
    """
    Ctrl+Break through the input queue at a seeded poll while a (long) statement or a stored program
    runs; optionally CONT.  What the display shows is compared with the engine state afterwards, as
    after any other op.
    """
    w = c.w
    armed = [True]

    def fire(world):
        if armed[0]:
            armed[0] = False
            world.inputs.pending.append(K.sig_break())
            c.run.fault('break-in-statement')

    lines = op.get('lines') or []
    for i, line in enumerate(lines[:40]):
        c.d.exec(b('%d %s' % (10 * (i + 1), line)))
    cmd = op.get('cmd') or 'RUN'
    w.at_poll(max(1, int(op.get('at', 1))), fire)
    res = _exec(c, cmd, poll_cap=60000)
    armed[0] = False
    if res.err is None and b'Break' in res.out:
        c.run.probe('statement interrupted by Break')
    if op.get('cont'):
        _exec(c, 'CONT', poll_cap=60000)
    if lines:
        c.d.exec(b'NEW')
    mode_set = _scan_signals(c)
    if mode_set:
        c.text_mode = _peek_text_mode(c)
        c.apage = c.vpage = None
        c.av_same = False
    if c.prop == 'C36':
        _resync_text(c)


def _run_with_keys(c, keys, fn, quit_at_prompt, poll_cap=8000):
    w = c.w
    f = KeyFeeder(c.d, keys, quit_at_prompt)
    old = w.poll_hook
    w.poll_hook = f
    try:
        return fn()
    finally:
        w.poll_hook = old


def _note_line_clear(c, keys):
    """
    Input shapes of a known family of line editor defects (they go into the signature): the editor
    scrolls the rows of a logical line that lie outside the scroll area.
    """
    kinds = []
    if '\x1b' in keys or '\x05' in keys:
        kinds.append('clear')       # Esc, Ctrl+End: clear the logical line
    if '\x7f' in keys or '\x08' in keys:
        kinds.append('delete')      # Del, Backspace: pull the rest of the logical line up
    if '\n' in keys:
        kinds.append('feed')        # Ctrl+J: push the rest of the logical line down
    if kinds and c.tm.win_active:
        # ... while a VIEW PRINT window is set (the logical line may reach below the window)
        if kinds == ['clear']:
            c.lineclear_in_window = ':after-line-clear-with-view-print-active'
        else:
            c.lineclear_in_window = ':after-line-editor-%s-with-view-print-active' % '+'.join(kinds)
    if '\n' in keys and c.tm.h is not None and getattr(c, 'last_cursor', (0, 0))[0] > c.tm.bottom:
        # line feed with the cursor below the scroll area (row 25)
        c.lineclear_in_window = ':after-line-feed-below-the-scroll-area'


def _h_typed(c, op):
    """Type a line with editing keys at the direct-mode prompt (interact mode), then Enter."""
    from pcbasic.basic.base import error
    w = c.w
    keys = [ch for ch in op['keys'] if ch != '\r'] + ['\r']
    _note_line_clear(c, op['keys'])

    def go():
        w.op_poll_base = w.poll_no
        w.op_poll_cap = 12000
        w.log.add('typed', op['keys'])
        try:
            try:
                c.d._guard('interact', c.d.s.interact)
            except error.Exit:
                pass
        finally:
            w.op_poll_cap = None
        w.stats['ops'] += 1

    _run_with_keys(c, keys, go, True)
    mode_set = _scan_signals(c)
    if mode_set:
        c.text_mode = _peek_text_mode(c)
        c.apage = c.vpage = None
        c.av_same = False
    # typed lines are remarks or random text (syntax errors); they cannot set VIEW PRINT/VIEW
    if c.prop == 'C36':
        _resync_text(c)


def _h_lineinput(c, op):
    keys = [ch for ch in op['keys'] if ch not in '\r'] + ['\r']
    _note_line_clear(c, op['keys'])
    stmt = 'LINE INPUT %s;Q$' % strexpr(op['prompt'])
    _run_with_keys(c, keys, lambda: _exec(c, stmt, poll_cap=8000), False)
    _after_text_op(c, None, False)


def _h_view(c, op):
    _gfx_common(c, op, 'view')


def _h_window(c, op):
    if op.get('reset'):
        stmt = 'WINDOW'
    else:
        v = op['v']
        stmt = 'WINDOW %s(%s,%s)-(%s,%s)' % ('SCREEN ' if op.get('screen') else '', v[0], v[1], v[2], v[3])
    _gfx_common(c, dict(op, stmt=stmt), 'window')


def _h_get(c, op):
    x0, y0, x1, y1 = op['x0'], op['y0'], op['x1'], op['y1']
    wd, ht = abs(x1 - x0) + 1, abs(y1 - y0) + 1
    n = 4 + (4 + ((wd * 2 + 7) // 8) * 4 * ht) // 2
    n = max(8, min(n, 7000))
    c.last_get = (x0, y0, x1, y1, n)
    if c.prop == 'C30':
        _gfx_common(c, dict(op, stmt='DIM G%%(%d):GET (%d,%d)-(%d,%d),G%%' % (n, x0, y0, x1, y1)), 'get')
    else:
        c.d.exec(b'ERASE G%')
        c.d.exec(b'DIM G%%(%d)' % n)
        _gfx_common(c, dict(op, stmt='GET (%d,%d)-(%d,%d),G%%' % (x0, y0, x1, y1)), 'get')


def _h_put(c, op):
    stmt = 'PUT (%d,%d),G%%' % (op['x'], op['y'])
    if op.get('verb'):
        stmt += ',' + op['verb']
    _gfx_common(c, dict(op, stmt=stmt), 'put')


def _h_gfx(c, op):
    _gfx_common(c, op, op.get('kind', 'gfx'))


class FakeRes(object):
    def __init__(self, err):
        self.err = err
        self.errs = [(err, None)] if err is not None else []
        self.out = b''


DRAWING = ('pset', 'preset', 'line', 'lineb', 'linebf', 'circle', 'paint', 'draw', 'put', 'view')


def _gfx_common(c, op, kind):
    """Execute a graphics statement; C30 oracles around it."""
    run = c.run
    judge = c.prop == 'C30'
    if kind == 'view':
        if op.get('reset'):
            stmt = 'VIEW'
        else:
            stmt = 'VIEW %s(%d,%d)-(%d,%d)' % ('SCREEN ' if op.get('screen') else '', op['x0'], op['y0'], op['x1'], op['y1'])
            if op.get('fill') is not None or op.get('border') is not None:
                stmt += ',%s' % ('' if op.get('fill') is None else op['fill'])
            if op.get('border') is not None:
                stmt += ',%d' % op['border']
    else:
        stmt = op['stmt']
    if not judge:
        res = _exec(c, stmt, poll_cap=60000)
        _scan_signals(c)
        _update_viewport(c, op, kind, res)
        if c.prop == 'C36':
            _resync_text(c)
        return
    text_mode = c.text_mode
    # In direct mode an error message would itself be printed on the screen (in graphics modes as
    # pixels on the active page). Run the statement from a stored program with the error trapped,
    # so that nothing but the statement can change the screen. Storing a line clears variables
    # (hence GET and PUT travel together) and resets DRAW state, neither of which the oracle uses.
    body = stmt
    if kind == 'put' and getattr(c, 'last_get', None):
        g = c.last_get
        body = 'DIM G%%(%d):GET (%d,%d)-(%d,%d),G%%:F%%=1:%s' % (g[4], g[0], g[1], g[2], g[3], stmt)
    c.d.exec(b'10 E%=-2:F%=0:ON ERROR GOTO 30:' + b(body) + b':E%=-1')
    c.d.exec(b'20 GOTO 40')
    c.d.exec(b'30 E%=ERR:RESUME 40')
    c.d.exec(b'40 ON ERROR GOTO 0:END')
    # (read before the snapshots: should one of these fail, its message lands on the screen)
    gstate0 = _gfx_state(c) if text_mode is False else None
    _scan_signals(c)
    before = _page_bytes(c)
    chars0 = c.d.chars()
    cur0 = _cursor(c)
    canvas0 = c.disp.pixel_rows()
    vp_before = c.viewport
    res = _exec(c, 'GOTO 10', poll_cap=60000)
    errcode = c.d.get(b'E%')
    if res.err is not None or errcode == -2:
        # the trap did not catch it (syntax error in the generated line, ...): not judged
        run.probe('trapped program failed')
        _scan_signals(c)
        return
    if kind == 'put' and body != stmt and c.d.get(b'F%') != 1:
        # the GET that feeds the PUT failed: the PUT never ran
        kind = 'get'
    res = FakeRes(None if errcode == -1 else errcode)
    mode_set = _scan_signals(c)
    after = _page_bytes(c)
    c.compares += 1
    geom = c.mode_geom
    width = geom[1]
    if mode_set or len(after) != len(before):
        # a graphics statement must not switch modes; if it did the snapshots are not comparable
        run.violate('C30', 'graphics-statement-set-video-mode', '%r emitted set_mode' % stmt)
        _update_viewport(c, op, kind, res)
        return
    changed = [i for i in range(len(before)) if before[i] != after[i]]
    if text_mode is None:
        _update_viewport(c, op, kind, res)
        return
    if text_mode:
        run.probe('graphics statement in text mode')
        if kind in DRAWING and errcode != 5:
            run.violate('C30', 'textmode:graphics-statement-not-error-5:' + kind,
                        '%r in text mode: trapped ERR=%r (expected 5, -1 means no error)' % (stmt, errcode))
        if changed:
            run.violate('C30', 'textmode:graphics-statement-changed-pixels:' + kind,
                        '%r in text mode changed pixels of page(s) %r' % (stmt, changed))
        if c.d.chars() != chars0:
            run.violate('C30', 'textmode:graphics-statement-changed-text:' + kind, '%r in text mode changed screen text' % stmt)
        cur1 = _cursor(c)
        if cur1 != cur0:
            run.violate('C30', 'textmode:graphics-statement-moved-cursor:' + kind,
                        '%r in text mode moved the cursor %r -> %r' % (stmt, cur0, cur1))
        return
    # graphics mode
    ap, vp = c.apage, c.vpage
    failed = errcode != -1
    if failed and kind != 'draw':
        # a failed statement leaves pixels, last point and coordinate mapping (viewport, window) as they
        # were.  (DRAW runs its string command by command: what it drew before the faulty one stays.)
        run.probe('failed graphics statement judged')
        if changed:
            run.violate('C30', 'failed-statement:changed-pixels:' + kind,
                        '%r failed with error %r but changed pixels of page(s) %r' % (stmt, errcode, changed))
        gstate1 = _gfx_state(c)
        if gstate0 is not None and gstate1 is not None:
            # (the statements that take a point may have moved the last point to a coordinate they had
            # read before they failed - not stated either way; VIEW and WINDOW take no such point)
            if gstate0[2:] != gstate1[2:]:
                run.violate('C30', 'failed-statement:changed-coordinate-mapping:' + kind,
                            '%r failed with error %r; (PMAP(0,2), PMAP(100,2), PMAP(0,3), PMAP(100,3)) went from %r to %r' % (
                                stmt, errcode, gstate0[2:], gstate1[2:]))
            elif kind in ('view', 'window') and gstate0[:2] != gstate1[:2]:
                run.violate('C30', 'failed-statement:changed-last-point:' + kind,
                            '%r failed with error %r; (POINT(0), POINT(1)) went from %r to %r' % (
                                stmt, errcode, gstate0[:2], gstate1[:2]))
    if kind == 'view' and not failed and not op.get('reset') and ap is not None and ap < len(before):
        # VIEW draws its boxes with the viewport unset: the fill covers the new viewport, the border is
        # the one-pixel frame around it; an attribute that is left out draws nothing
        if op.get('fill') is None and op.get('border') is None:
            run.probe('VIEW without fill and border')
            if changed:
                run.violate('C30', 'view:changed-pixels-without-fill-or-border',
                            '%r changed pixels of page(s) %r' % (stmt, changed))
        elif ap in changed:
            bbox = _diff_bbox(before[ap], after[ap], width)
            x0, x1 = sorted((op['x0'], op['x1']))
            y0, y1 = sorted((op['y0'], op['y1']))
            grow = 0 if op.get('border') is None else 1
            if bbox[0] < x0 - grow or bbox[1] < y0 - grow or bbox[2] > x1 + grow or bbox[3] > y1 + grow:
                run.violate('C30', 'view:box-drawn-outside-the-new-viewport-and-its-frame',
                            '%r changed pixels in x %d..%d, y %d..%d on page %d' % (stmt, bbox[0], bbox[2], bbox[1], bbox[3], ap))
    if ap is not None:
        others = [i for i in changed if i != ap]
        if others:
            run.violate('C30', 'page:graphics-statement-changed-non-active-page:' + kind,
                        '%r with active page %d (visible %r) changed page(s) %r' % (stmt, ap, vp, others))
        if ap != vp and vp is not None:
            run.probe('graphics on hidden active page')
            if c.disp.pixel_rows() != canvas0:
                run.violate('C30', 'page:display-changed-while-active-page-hidden:' + kind,
                            '%r with active page %d, visible page %d changed the reference display' % (stmt, ap, vp))
        # VIEW itself draws its fill and border with the viewport unset: only the page is judged
        if ap in changed and ap < len(before) and kind != 'view':
            bbox = _diff_bbox(before[ap], after[ap], width)
            allowed = vp_before or (0, 0, width - 1, geom[0] - 1)
            if bbox[0] < allowed[0] or bbox[1] < allowed[1] or bbox[2] > allowed[2] or bbox[3] > allowed[3]:
                run.violate('C30', 'viewport:pixels-changed-outside:' + kind,
                            '%r changed pixels in x %d..%d, y %d..%d on page %d; viewport %r (screen %dx%d)' % (
                                stmt, bbox[0], bbox[2], bbox[1], bbox[3], ap, allowed, width, geom[0]))
            elif vp_before is not None:
                run.probe('drawing confined by a VIEW viewport')
                if bbox[0] == allowed[0] or bbox[1] == allowed[1] or bbox[2] == allowed[2] or bbox[3] == allowed[3]:
                    run.probe('drawing reaches the VIEW viewport edge')
    if res.err is not None and changed:
        run.probe('graphics statement failed after drawing')
    _update_viewport(c, op, kind, res)


def _gfx_state(c):
    """Last point (physical) and the world-to-physical mapping, through POINT(n) and PMAP."""
    vals = []
    for expr in (b'POINT(0)', b'POINT(1)', b'PMAP(0,2)', b'PMAP(100,2)', b'PMAP(0,3)', b'PMAP(100,3)'):
        v = c.d.eval(expr)
        if v is None:
            return None
        vals.append(v)
    return tuple(vals)


def _update_viewport(c, op, kind, res):
    if kind != 'view' or res.err is not None or c.text_mode:
        return
    if op.get('reset'):
        c.viewport = None
    else:
        x0, x1 = sorted((op['x0'], op['x1']))
        y0, y1 = sorted((op['y0'], op['y1']))
        c.viewport = (x0, y0, x1, y1)


def _op_restart(c, path):
    """Suspend, close, resume, attach a fresh display; it must show what the old one showed."""
    run = c.run
    w = c.w
    w.video.drain()
    old = c.disp
    # what the old display shows must first be right (otherwise report that, not the rebuild)
    if c.prop == 'C35':
        _drain_and_compare(c, 'before-restart')
    new = RefDisplay()
    w.video.consumer = new
    c.disp = new
    c.d = suspend_resume(c.d, path)     # counts the 'restart' fault
    w.video.drain()
    _scan_signals(c)
    run.probe('rebuild path (fresh display attached after resume)')
    if c.prop != 'C35':
        return
    c.compares += 1
    if old.mode != new.mode:
        run.violate('C35', 'rebuild:mode', 'old display mode %r, fresh display mode %r' % (old.mode, new.mode))
        return
    if old.pixel_rows() != new.pixel_rows():
        y, x, ov, nv = _first_diff(old.pixel_rows(), new.pixel_rows())
        run.violate('C35', 'rebuild:pixels',
                    'fresh display after resume differs from the display before suspend at y=%d x=%d: before %r, after %r' % (y, x, ov, nv))
    if old.text_rows() != new.text_rows():
        y, x, ov, nv = _first_diff(old.text_rows(), new.text_rows())
        run.violate('C35', 'rebuild:text',
                    'fresh display text differs at row %d col %d: before %r, after %r' % (y + 1, x + 1, ov, nv))
    if old.palette != new.palette:
        run.violate('C35', 'rebuild:palette', 'palette after resume differs: before %r\nafter %r' % (old.palette, new.palette))
    if old.border_attr != new.border_attr:
        run.violate('C35', 'rebuild:border', 'border attribute before %r after %r' % (old.border_attr, new.border_attr))
    if bool(old.cursor_visible) != bool(new.cursor_visible):
        run.violate('C35', 'rebuild:cursor-visibility', 'cursor visible before %r after %r' % (old.cursor_visible, new.cursor_visible))
    elif old.cursor_visible and (old.cursor_pos, old.cursor_shape) != (new.cursor_pos, new.cursor_shape):
        run.violate('C35', 'rebuild:cursor', 'cursor (pos, shape) before %r after %r' % (
            (old.cursor_pos, old.cursor_shape), (new.cursor_pos, new.cursor_shape)))


HANDLERS = {
    'print': _h_print, 'printrep': _h_printrep, 'scrollburst': _h_scrollburst, 'land': _h_land,
    'cls': _h_cls, 'color': _h_color, 'locate': _h_locate, 'viewprint': _h_viewprint, 'width': _h_width,
    'screen': _h_screen, 'pcopy': _h_pcopy, 'key': _h_key, 'keydef': _h_keydef, 'palette': _h_palette,
    'drain': _h_drain, 'scrfn': _h_scrfn, 'pages': _h_pages, 'breakin': _h_breakin, 'typed': _h_typed, 'lineinput': _h_lineinput,
    'view': _h_view, 'window': _h_window, 'get': _h_get, 'put': _h_put, 'gfx': _h_gfx,
}
