"""
errfn machine - C20 (DEF FN never disturbs the caller's variables) and C21 (error trapping
reports and resumes at the right place).

C20  A generated program (lets, DEF FNs, calls) is RUN in interact mode. Every call statement is
     bracketed by two dumps of a fixed roster of variables (names shared with the parameters).
     Function bodies can block (INPUT$(1)) or poll (INKEY$), so the simulator delivers, at the
     blocked poll inside the evaluation: a key, Ctrl-Break (then CONT), QUIT (suspend -> close ->
     resume) or a trapped F1 (ON KEY(1) GOSUB). Bodies contain fault-prone subexpressions,
     conversions that fail, self/mutual recursion. Forced GC (seam S7) and small memories.
     Oracles: dump after == dump before (apart from the assignment target); dumps == model;
     result / error code / ERL == a small reference evaluator; recursion -> error 7.

C21  A generated program of multi-statement lines, nested GOSUBs and a fixed error handler is RUN;
     fault sites are ERROR n, real runtime faults and device statements whose host call fails
     with a chosen errno for the first r attempts (simfs), the handler resumes by RESUME /
     RESUME NEXT / RESUME n / ON ERROR GOTO 0 as selected by a variable set at the site; then
     direct-mode lines. Oracle: a reference model of the statement pointer; full trace equality;
     bounded liveness in polls once the faults stop.
"""

import os
import re
import errno as _errno
from fractions import Fraction

from .. import kernel as K
from ..basicdrv import Driver, EngineCrash, ByteSink, interact, suspend_resume, ERRMSG, MSG2ERR
from .. import simfs
from .common import Run, execute, b, u, shash

NAME = 'errfn'
PROPS = ('C20', 'C21')
RULE = ('one evaluation = one generated program run to completion in interact mode under one '
        'fault/interrupt plan; C20: distinct = (call context, model outcome, #params, shadowing, '
        'forced-gc on, handler armed, interrupt kind) per call; C21: distinct = (statement kind, '
        'error code, resume form, handler armed, in-subroutine, direct mode, fault remaining) per '
        'executed model statement; non-trivial = at least one call / one trapped or reported error')
REAL = ['pcbasic.basic (whole package)', 'pcbasic.basic.parser.userfunctions', 'pcbasic.basic.interpreter',
        'pcbasic.basic.memory (string space, collector)', 'pcbasic.basic.devices.disk on tmpfs',
        'pcbasic.basic.state (pickle/zlib) for suspend/resume']
STUB = ['wall clock (simulated)', 'keyboard/user (Typist + position-keyed poll hook)',
        'host FS errors (simfs fault plan)', 'video/audio consumers (recording queues)']
ASSUMPTIONS = [
    'C20: values are restricted to short alphanumeric strings and multiples of 1/4 so that the reference '
    'evaluator needs no float formatting; .5 -> integer rounding, soft (untrapped) float errors and '
    'dynamic scoping of an outer function\'s parameter are left unchecked (result unknown)',
    'C21: read/write faults use EIO only (stream errors are documented as Device I/O error); '
    'host write faults on PRINT# are not generated (known defect: OSError escapes TextFileBase.write)',
]
BATCH = 10


def quick_runs(prop):
    return {'C20': 700, 'C21': 900}.get(prop, 500)


###############################################################################
# S7: forced garbage collection

class ForcedGC(object):
    """
    Wrap DataSegment.check_free so that at every k-th call (k recorded in the case)
    _collect_garbage() runs first. Collection is semantically transparent by C10/C20/C23
    themselves, so this only makes a rarely-taken path common. _collect_garbage honours
    hold_garbage(), so a legitimate hold is respected.
    """

    def __init__(self, world, k, phase=0):
        self.w = world
        self.k = int(k or 0)
        self.n = int(phase or 0)
        self.orig = None
        self.cls = None

    def __enter__(self):
        from pcbasic.basic.memory.memory import DataSegment
        self.cls = DataSegment
        self.orig = orig = DataSegment.check_free
        me = self

        def check_free(seg, size, err):
            if me.k:
                me.n += 1
                if me.n % me.k == 0:
                    me.w.faults['forced-gc'] += 1
                    seg._collect_garbage()
            return orig(seg, size, err)

        DataSegment.check_free = check_free
        return self

    def __exit__(self, *exc):
        self.cls.check_free = self.orig
        return False


###############################################################################
# shared: output parsing and the prompt-side user

_STOP_RE = re.compile(b'^(.*?)([A-Za-z/\' ]+?) in (\\d+)\xff$')
_ERRLINE_RE = re.compile(b'^([A-Za-z/\' ]+?)\xff$')


def parse_trace(out):
    """
    Split the output pipe into events:
      ('#', tag, [fields], complete)   a line the program printed, starting with '#'
      ('stop', code, line)             error report 'msg in N'
      ('derr', code)                   error report without a line (direct mode)
      ('break', line)                  'Break in N'
    Everything else (echo of typed lines, Ok prompts, FILES listings, soft float messages) is skipped.
    """
    ev = []
    for raw in out.split(b'\r\n'):
        if not raw:
            continue
        if raw.startswith(b'#'):
            txt = raw.decode('latin-1')
            complete = txt.endswith('|') and '^C' not in txt
            parts = txt[1:].split('|')
            tag = parts[0]
            ev.append(('#', tag, parts[1:-1] if complete else parts[1:], complete))
            continue
        m = _STOP_RE.match(raw)
        if m:
            msg = m.group(2)
            line = int(m.group(3))
            if msg == b'Break':
                ev.append(('break', line))
                continue
            code = _msgcode(msg)
            if code is not None:
                ev.append(('stop', code, line))
                continue
        m = _ERRLINE_RE.match(raw)
        if m and raw != b'Ok\xff':
            code = _msgcode(m.group(1))
            if code is not None:
                ev.append(('derr', code))
    return ev


def _msgcode(msg):
    if msg in MSG2ERR:
        return MSG2ERR[msg]
    if msg == b'Unprintable error':
        return -1
    for k in sorted(MSG2ERR, key=len, reverse=True):
        if msg.endswith(k):
            return MSG2ERR[k]
    if msg.endswith(b'Unprintable error'):
        return -1
    return None


class Sinks(object):
    """The output pipe across suspend/resume (each resumed Session gets a fresh sink)."""

    def __init__(self):
        self.sinks = [ByteSink('sink0')]

    @property
    def current(self):
        return self.sinks[-1]

    def add(self, session):
        s = ByteSink('sink%d' % len(self.sinks))
        session.add_pipes(output_streams=s)
        self.sinks.append(s)

    def value(self):
        return b''.join(s.getvalue() for s in self.sinks)


###############################################################################
###############################################################################
# C20

STR_VARS = ['A$', 'B$']
NUM_VARS = ['I%', 'J%', 'X!', 'K', 'U#']
ARR_VARS = ['A$(1)', 'I%(1)']
DUMP_S = ['A$', 'B$', 'A$(1)']
DUMP_N = ['I%', 'J%', 'X!', 'K', 'U#', 'I%(1)']
FN_NAMES = ['FNP$', 'FNQ$', 'FNR', 'FNS%', 'FNT#']
BLOCK_T = 14          # idle polls in one line before the hook decides the engine is blocked
MAX_INKEY = 8         # model gives up (unknown) beyond this many INKEY$ per statement
LINE0 = 100
FIN_LINE = 7000
TRAP_LINE = 7500
DUMP_LINE = 8000
ERR_LINE = 9000

UNK = ('?',)


def _norm(name):
    """Variable name with explicit sigil (default single)."""
    base = name.split('(')[0]
    if base[-1] not in '$%!#':
        return name.replace(base, base + '!', 1)
    return name


def _vtype(name):
    return 's' if _norm(name).split('(')[0][-1] == '$' else 'n'


def _sig(name):
    return _norm(name).split('(')[0][-1]


class BErr(Exception):
    def __init__(self, code):
        Exception.__init__(self, code)
        self.code = code


class Interrupted(Exception):
    def __init__(self, kind):
        Exception.__init__(self, kind)
        self.kind = kind


def fmt_num(v):
    """PRINT/STR$ representation (without trailing blank) of a multiple of 1/4, |v| <= 9999.75."""
    if v is UNK:
        return None
    v = Fraction(v)
    if abs(v) > 9999 or (v * 4).denominator != 1:
        return None
    neg = v < 0
    a = abs(v)
    ip = int(a)
    fr = a - ip
    frs = {Fraction(0): '', Fraction(1, 4): '.25', Fraction(1, 2): '.5', Fraction(3, 4): '.75'}[fr]
    if ip == 0:
        body = frs if frs else '0'
    else:
        body = str(ip) + frs
    return ('-' if neg else ' ') + body


def conv_to(val, sigil):
    """Convert a model value to the type of a variable/function with this sigil."""
    t, v = val
    if sigil == '$':
        if t != 's':
            raise BErr(13)
        return val
    if t != 'n':
        raise BErr(13)
    if sigil == '%':
        if v is UNK:
            return ('n', UNK)
        a = abs(v)
        fr = a - int(a)
        if fr == Fraction(1, 2):
            # rounding of halves is left out of the oracle
            if a > 32768:
                raise BErr(6)
            return ('n', UNK)
        r = Fraction(int(a + Fraction(1, 2)))
        if v < 0:
            r = -r
        if r < -32768 or r > 32767:
            raise BErr(6)
        return ('n', r)
    return val


def expr_text(node):
    k = node[0]
    if k == 's':
        return '"%s"' % node[1]
    if k == 'n':
        q = node[1]
        v = Fraction(q, 4)
        if v.denominator == 1:
            txt = str(abs(int(v)))
        else:
            ip = int(abs(v))
            txt = (str(ip) if ip else '') + {1: '.25', 2: '.5', 3: '.75'}[abs(q) % 4]
        return '(-%s)' % txt if q < 0 else txt
    if k == 'v' or k == 'e':
        return node[1]
    if k == '+':
        return '(%s+%s)' % (expr_text(node[1]), expr_text(node[2]))
    if k == 'len':
        return 'LEN(%s)' % expr_text(node[1])
    if k == 'str':
        return 'STR$(%s)' % expr_text(node[1])
    if k == 'left':
        return 'LEFT$(%s,%d)' % (expr_text(node[1]), node[2])
    if k == 'asc':
        return 'ASC(%s)' % expr_text(node[1])
    if k == 'mid0':
        return 'MID$(%s,0)' % expr_text(node[1])
    if k == 'div0':
        return '(%s/0)' % expr_text(node[1])
    if k == 'ovf':
        return 'CINT(100000)'
    if k == 'in1':
        return 'INPUT$(1)'
    if k == 'inkey':
        return 'INKEY$'
    if k == 'gcs':
        return 'LEFT$(STR$(FRE("")),0)'
    if k == 'gcn':
        return '(FRE("")*0)'
    if k == 'fn':
        if node[2]:
            return '%s(%s)' % (node[1], ','.join(expr_text(a) for a in node[2]))
        return node[1]
    raise ValueError(node)


def expr_has(node, kinds):
    if node[0] in kinds:
        return True
    for sub in node[1:]:
        if isinstance(sub, list):
            if sub and isinstance(sub[0], str) and sub[0] in _KINDS:
                if expr_has(sub, kinds):
                    return True
            else:
                for x in sub:
                    if isinstance(x, list) and expr_has(x, kinds):
                        return True
    return False


_KINDS = {'s', 'n', 'v', 'e', '+', 'len', 'str', 'left', 'asc', 'mid0', 'div0', 'ovf', 'in1', 'inkey',
          'gcs', 'gcn', 'fn'}


class Model20(object):
    """Reference evaluator for the C20 expression language."""

    def __init__(self, cfg):
        self.cfg = cfg
        self.g = {}
        self.defs = {}
        self.frames = []       # [(fn, {param names})]
        self.acts = None
        self.soft = 0
        self.traps = 0
        self.inkeys = 0
        self.waits = 0
        self.depth_max = 0
        self.recursed = False

    def get(self, name):
        name = _norm(name)
        if name in self.g:
            return self.g[name]
        return '' if _vtype(name) == 's' else Fraction(0)

    def begin_stmt(self, acts):
        self.acts = list(acts or [])
        self.soft = 0
        self.traps = 0
        self.inkeys = 0
        self.waits = 0
        self.depth_max = 0
        self.recursed = False

    def next_key(self):
        """What the blocked INPUT$(1) gets: mirrors the poll hook's consumption of the action list."""
        self.waits += 1
        while True:
            if not self.acts:
                return 'z'
            a = self.acts.pop(0)
            if a == 'trap':
                if self.cfg.get('trap'):
                    self.traps += 1
                continue
            if a in ('break', 'quit'):
                raise Interrupted(a)
            if a.startswith('k:'):
                return a[2:]

    def ev(self, node):
        k = node[0]
        if k == 's':
            return ('s', node[1])
        if k == 'n':
            return ('n', Fraction(node[1], 4))
        if k in ('v', 'e'):
            name = _norm(node[1])
            t = _vtype(name)
            if k == 'v' and self.frames:
                if name not in self.frames[-1][1] and any(name in f[1] for f in self.frames[:-1]):
                    # free variable that is a parameter of an outer active function: unspecified
                    return (t, UNK)
            return (t, self.get(name))
        if k == '+':
            a = self.ev(node[1])
            c = self.ev(node[2])
            if a[0] != c[0]:
                raise BErr(13)
            if a[1] is UNK or c[1] is UNK:
                return (a[0], UNK)
            if a[0] == 's':
                if len(a[1]) + len(c[1]) > 255:
                    raise BErr(15)
                return ('s', a[1] + c[1])
            return ('n', a[1] + c[1])
        if k == 'len':
            a = self.ev(node[1])
            if a[0] != 's':
                raise BErr(13)
            return ('n', UNK if a[1] is UNK else Fraction(len(a[1])))
        if k == 'str':
            a = self.ev(node[1])
            if a[0] != 'n':
                raise BErr(13)
            f = fmt_num(a[1])
            return ('s', UNK if f is None else f)
        if k == 'left':
            a = self.ev(node[1])
            if a[0] != 's':
                raise BErr(13)
            return ('s', UNK if a[1] is UNK else a[1][:node[2]])
        if k == 'asc':
            a = self.ev(node[1])
            if a[0] != 's':
                raise BErr(13)
            if a[1] is UNK:
                return ('n', UNK)
            if not a[1]:
                raise BErr(5)
            return ('n', Fraction(ord(a[1][0])))
        if k == 'mid0':
            a = self.ev(node[1])
            if a[0] != 's':
                raise BErr(13)
            raise BErr(5)
        if k == 'div0':
            a = self.ev(node[1])
            if a[0] != 'n':
                raise BErr(13)
            if self.cfg.get('onerror'):
                raise BErr(11)
            self.soft += 1
            return ('n', UNK)
        if k == 'ovf':
            raise BErr(6)
        if k == 'in1':
            return ('s', self.next_key())
        if k == 'inkey':
            self.inkeys += 1
            return ('s', '' if self.inkeys <= MAX_INKEY else UNK)
        if k == 'gcs':
            return ('s', '')
        if k == 'gcn':
            return ('n', Fraction(0))
        if k == 'fn':
            return self.call(node[1], node[2])
        raise ValueError(node)

    def call(self, fn, args):
        if fn not in self.defs:
            raise BErr(18)
        params = [_norm(p) for p in self.cfg['fns'][fn]]
        if len(args) != len(params):
            raise BErr(2)
        vals = []
        for a, p in zip(args, params):
            vals.append(conv_to(self.ev(a), _sig(p)))
        if any(f[0] == fn for f in self.frames):
            self.recursed = True
            raise BErr(7)
        saved = {}
        for p in params:
            saved.setdefault(p, self.g.get(p))
        for p, v in zip(params, vals):
            self.g[p] = v[1]
        self.frames.append((fn, set(params)))
        self.depth_max = max(self.depth_max, len(self.frames))
        try:
            res = self.ev(self.defs[fn])
            return conv_to(res, _sig(fn))
        finally:
            self.frames.pop()
            for p, v in saved.items():
                if v is None:
                    self.g.pop(p, None)
                else:
                    self.g[p] = v


# ---------------------------------------------------------------------------
# generation

_WORDS = ['ab', 'cd', 'xyz', 'q', 'hello', 'w0', 'mno', 'tt', 'k9', 'zebra']


def _gen_lit(rng, t):
    if t == 's':
        return ['s', rng.choice(_WORDS)]
    return ['n', rng.choice([0, 4, 8, 12, 13, 15, 28, -4, -13, -15, 5, 7, 400, -400, 1001, rng.randint(-1200, 1200)])]


def _gen_expr(rng, t, cx, depth):
    """Well-typed expression of type t. cx: dict(params, fns, block, faults, gc, self)."""
    r = rng.random()
    params = [p for p in cx['params'] if _vtype(p) == t]
    if depth <= 0 or r < 0.22:
        if params and rng.random() < 0.7:
            return ['v', rng.choice(params)]
        rr = rng.random()
        if rr < 0.45:
            return _gen_lit(rng, t)
        if rr < 0.85:
            return ['v', rng.choice(STR_VARS if t == 's' else NUM_VARS)]
        return ['e', 'A$(1)' if t == 's' else 'I%(1)']
    if r < 0.50:
        return ['+', _gen_expr(rng, t, cx, depth - 1), _gen_expr(rng, t, cx, depth - 1)]
    if r < 0.62:
        if t == 's':
            if rng.random() < 0.6:
                return ['str', _gen_expr(rng, 'n', cx, depth - 1)]
            return ['left', _gen_expr(rng, 's', cx, depth - 1), rng.randint(0, 4)]
        if rng.random() < 0.6:
            return ['len', _gen_expr(rng, 's', cx, depth - 1)]
        return ['asc', ['+', _gen_expr(rng, 's', cx, depth - 1), ['s', 'm']]]
    if r < 0.74 and cx['fns']:
        cands = [f for f in cx['fns'] if _vtype(f) == t]
        if cands:
            fn = rng.choice(cands)
            return ['fn', fn, _gen_args(rng, cx['sigs'][fn], cx, depth - 1, cx.get('mism', 0.0))]
    if r < 0.82 and cx.get('block'):
        if t == 's':
            return ['in1'] if rng.random() < 0.7 else ['inkey']
        return ['asc', ['in1']] if rng.random() < 0.7 else ['len', ['inkey']]
    if r < 0.90 and cx.get('faults'):
        if t == 's':
            return rng.choice([['mid0', _gen_expr(rng, 's', cx, 0)], ['left', ['str', ['ovf']], 2],
                               ['str', ['asc', ['s', '']]]])
        return rng.choice([['div0', _gen_expr(rng, 'n', cx, 0)], ['ovf'], ['asc', ['s', '']],
                           ['len', ['mid0', _gen_expr(rng, 's', cx, 0)]]])
    if r < 0.96 and cx.get('gc'):
        return ['+', ['gcs'] if t == 's' else ['gcn'], _gen_expr(rng, t, cx, depth - 1)]
    return _gen_lit(rng, t)


def _gen_args(rng, params, cx, depth, mism):
    args = []
    for p in params:
        t = _vtype(p)
        r = rng.random()
        if r < mism:
            # an argument that fails to convert
            if t == 'n' and _sig(p) == '%' and rng.random() < 0.5:
                args.append(['n', rng.choice([160000, -160000, 131072])])
            else:
                args.append(_gen_expr(rng, 's' if t == 'n' else 'n', cx, 0))
        elif t == 'n' and _sig(p) == '%' and r < mism + 0.2:
            args.append(['n', rng.choice([13, 15, -13, -15, 29, 31])])
        else:
            a = _gen_expr(rng, t, cx, depth)
            if t == 's' and rng.random() < 0.5:
                # make it a temporary in string space
                a = ['+', a, ['s', rng.choice(_WORDS)]]
            args.append(a)
    return args


def gen20(rng, tier):
    thorough = tier != 'quick'
    sigs = {}
    pool = STR_VARS + NUM_VARS
    for fn in FN_NAMES:
        n = rng.choice([0, 1, 1, 2, 2, 3, 4])
        ps = []
        while len(ps) < n:
            p = rng.choice(pool)
            if p not in ps and not (p == 'K' and 'K!' in ps):
                ps.append(p)
        sigs[fn] = ps
    faulty = rng.random() < 0.6          # fault-injecting arm (interrupts, forced gc, pressure)
    cfg = {
        'fns': sigs,
        'onerror': rng.random() < 0.5,
        'trap': rng.random() < 0.4,
        'gc_k': rng.choice([1, 2, 3, 5, 7]) if faulty and rng.random() < 0.7 else 0,
        'session': {'max_memory': rng.choice([65534, 65534, 20000, 12000]) if faulty else 65534},
        'world': {},
    }
    ops = []
    defined = []
    n_ops = rng.randint(6, 16 if not thorough else 40)
    n_calls = 0
    for i in range(n_ops):
        r = rng.random()
        if r < 0.30 or (not defined and r < 0.6):
            fn = rng.choice(FN_NAMES)
            cx = {'params': sigs[fn], 'sigs': sigs,
                  'fns': [f for f in FN_NAMES if f != fn and rng.random() < 0.5], 'mism': 0.05,
                  'block': faulty and rng.random() < 0.5, 'faults': rng.random() < 0.4, 'gc': rng.random() < 0.5}
            body = _gen_expr(rng, _vtype(fn), cx, rng.randint(1, 3))
            rr = rng.random()
            if rr < 0.08:
                # direct self-recursion
                body = ['+', body, ['fn', fn, _gen_args(rng, sigs[fn], dict(cx, fns=[]), 0, 0.0)]]
            elif rr < 0.14:
                other = rng.choice([f for f in FN_NAMES if f != fn and _vtype(f) == _vtype(fn)] or [fn])
                body = ['+', body, ['fn', other, _gen_args(rng, sigs[other], dict(cx, fns=[]), 0, 0.0)]]
            ops.append({'op': 'def', 'fn': fn, 'body': body})
            if fn not in defined:
                defined.append(fn)
        elif r < 0.50:
            var = rng.choice(STR_VARS + NUM_VARS + ARR_VARS)
            t = _vtype(var)
            cx = {'params': [], 'fns': [], 'sigs': sigs}
            e = _gen_expr(rng, t, cx, rng.randint(0, 1))
            if t == 'n' and _sig(var) == '%':
                e = _gen_lit(rng, 'n')
            ops.append({'op': 'let', 'var': var, 'e': e})
        else:
            fn = rng.choice(defined if defined and rng.random() < 0.9 else FN_NAMES)
            cx = {'params': [], 'sigs': sigs, 'fns': [f for f in defined if rng.random() < 0.3],
                  'mism': 0.12, 'block': False, 'faults': rng.random() < 0.15, 'gc': rng.random() < 0.3}
            e = ['fn', fn, _gen_args(rng, sigs[fn], cx, 1, 0.12)]
            if rng.random() < 0.2:
                e = ['+', e, _gen_expr(rng, _vtype(fn), cx, 0)]
            op = {'op': 'call', 'e': e, 'ctx': 'print', 'acts': [], 'pevt': None}
            if rng.random() < 0.35:
                t = _vtype(fn)
                op['ctx'] = 'let'
                op['var'] = rng.choice([v for v in STR_VARS + NUM_VARS + ARR_VARS if _vtype(v) == t])
            if faulty:
                acts = []
                for _ in range(rng.randint(0, 3)):
                    acts.append(rng.choice(['k:a', 'k:b', 'k:7', 'k:Q', 'trap', 'break', 'quit', 'k:m']))
                op['acts'] = acts
                if rng.random() < 0.15:
                    op['pevt'] = {'n': rng.randint(1, 4), 'act': rng.choice(['break', 'quit', 'trap'])}
            ops.append(op)
            n_calls += 1
    return {'machine': NAME, 'prop': 'C20', 'cfg': cfg, 'ops': ops}


# ---------------------------------------------------------------------------
# program text

def program20(cfg, ops):
    """-> (lines [bytes], call_lines {lineno: op index})."""
    lines = []
    call_lines = {}
    lines.append('10 KEY OFF')
    if cfg.get('onerror'):
        lines.append('20 ON ERROR GOTO %d' % ERR_LINE)
    if cfg.get('trap'):
        lines.append('30 ON KEY(1) GOSUB %d:KEY(1) ON' % TRAP_LINE)
    for i, op in enumerate(ops):
        n = LINE0 + 10 * i
        if op['op'] == 'let':
            lines.append('%d %s=%s' % (n, op['var'], expr_text(op['e'])))
        elif op['op'] == 'def':
            fn = op['fn']
            ps = cfg['fns'][fn]
            lines.append('%d DEF %s%s=%s' % (n, fn, '(%s)' % ','.join(ps) if ps else '', expr_text(op['body'])))
        elif op['op'] == 'call':
            lines.append('%d PRINT "#B|%d|":GOSUB %d' % (n, i, DUMP_LINE))
            if op['ctx'] == 'let':
                lines.append('%d %s=%s' % (n + 1, op['var'], expr_text(op['e'])))
            else:
                lines.append('%d PRINT "#R|";%s;"|"' % (n + 1, expr_text(op['e'])))
            call_lines[n + 1] = i
            lines.append('%d PRINT "#A|%d|":GOSUB %d' % (n + 2, i, DUMP_LINE))
    lines.append('%d PRINT "#FIN|":END' % FIN_LINE)
    lines.append('%d PRINT "#T|":GOSUB %d:RETURN' % (TRAP_LINE, DUMP_LINE))
    lines.append('%d PRINT "#D|";%s;"|"' % (DUMP_LINE, ';"|";'.join(DUMP_S)))
    lines.append('%d PRINT "#N|";%s;"|"' % (DUMP_LINE + 10, ';"|";'.join(DUMP_N)))
    lines.append('%d RETURN' % (DUMP_LINE + 20))
    # the leading PRINT ends a partially printed "#R|" line
    lines.append('%d PRINT:PRINT "#E|";ERR;"|";ERL;"|":RESUME NEXT' % ERR_LINE)
    return [b(l) for l in lines], call_lines


# ---------------------------------------------------------------------------
# the user at the keyboard: position-keyed interrupts + prompt-side continuation

class Hook20(object):
    def __init__(self, run, sinks, cfg, ops, call_lines, all_lines):
        self.run = run
        self.all_lines = all_lines
        self.sinks = sinks
        self.cfg = cfg
        self.ops = ops
        self.call_lines = call_lines
        self.st = {}
        self.quit_pending = False
        self.parsed = 0
        self.delivered = []       # (op index, act) for diagnostics
        self.prompt_idle = 0

    def state(self, line):
        if line not in self.st:
            op = self.ops[self.call_lines[line]]
            self.st[line] = {'polls': 0, 'idle': 0, 'acts': list(op.get('acts') or []), 'pevt_done': False}
        return self.st[line]

    def deliver(self, w, t, opi, act):
        self.delivered.append((opi, act))
        if act == 'break':
            w.inputs.pending.append(K.sig_break())
            w.faults['break-in-fn'] += 1
        elif act == 'quit':
            w.inputs.pending.append(K.sig_quit())
            self.quit_pending = True
            w.faults['quit-in-fn'] += 1
        elif act == 'trap':
            from pcbasic.basic.base import scancode
            w.inputs.pending.append(K.sig_key(u'\0\x3b', scancode.F1, ()))
            w.faults['trap-in-fn'] += 1
        elif act.startswith('k:'):
            w.inputs.pending.append(K.sig_key(act[2:], None, ()))

    def __call__(self, w, t):
        if self.quit_pending:
            return
        impl = t.d.s._impl
        interp = impl.interpreter
        if interp.parse_mode and interp.run_mode:
            self.prompt_idle = 0
            # scheduling observation only: which line is the engine in?
            line = impl.program.get_line_number(interp.current_statement)
            if line not in self.call_lines:
                return
            st = self.state(line)
            opi = self.call_lines[line]
            op = self.ops[opi]
            st['polls'] += 1
            pe = op.get('pevt')
            if pe and not st['pevt_done'] and st['polls'] == pe['n']:
                st['pevt_done'] = True
                if pe['act'] != 'trap' or self.cfg.get('trap'):
                    self.deliver(w, t, opi, pe['act'])
                    return
            if t.engine_idle() and not w.inputs.pending:
                st['idle'] += 1
            else:
                st['idle'] = 0
            if st['idle'] >= BLOCK_T:
                st['idle'] = 0
                while True:
                    act = st['acts'].pop(0) if st['acts'] else 'k:z'
                    if act == 'trap' and not self.cfg.get('trap'):
                        continue
                    break
                self.run.probe('blocked-in-fn')
                self.deliver(w, t, opi, act)
            return
        if t.at_prompt() and t.engine_idle() and not w.inputs.pending and t.pos >= len(t.script):
            # the program stopped: decide how the user continues it
            out = self.sinks.value()
            ev = parse_trace(out[self.parsed:])
            self.parsed = len(out)
            nxt = None
            for e in ev:
                if e[0] == 'break':
                    nxt = u'CONT'
                elif e[0] == 'stop':
                    later = [n for n in self.all_lines if n > e[2]]
                    if LINE0 <= e[2] < FIN_LINE and later:
                        nxt = u'GOTO %d' % later[0]
                    else:
                        nxt = None
                elif e[0] == '#' and e[1] == 'FIN':
                    nxt = None
            if nxt is not None:
                t.script.append({'t': 'line', 'text': nxt})


# ---------------------------------------------------------------------------
# run + judge

def _fields_equal(a, b_):
    return a == b_


def run20(case):
    cfg = case['cfg']
    ops = case['ops']

    def body(run):
        w = run.w
        scratch = run.make_scratch()
        lines, call_lines = program20(cfg, ops)
        sinks = Sinks()
        with w, ForcedGC(w, cfg.get('gc_k', 0)):
            d = Driver(w, output_streams=sinks.current, **cfg.get('session', {}))
            for l in lines:
                r = d.exec(l)
                if r.errs:
                    # the program does not fit (memory pressure arm): nothing to judge
                    run.probe('program-entry-error')
                    d.close()
                    return
            hook = Hook20(run, sinks, cfg, ops, call_lines, sorted(int(l.split()[0]) for l in lines))
            script = [{'t': 'line', 'text': u'RUN'}]
            n_resume = 0
            while True:
                t = interact(d, script, extra=hook, poll_cap=60000, stall_polls=3000)
                if hook.quit_pending:
                    hook.quit_pending = False
                    n_resume += 1
                    d = suspend_resume(d, os.path.join(scratch, 'state%d.bin' % n_resume))
                    sinks.add(d.s)
                    script = t.script[t.pos:]
                    continue
                break
            run.res['stats']['stalled'] += t.stalled
            d.close()
        judge20(run, cfg, ops, call_lines, sinks.value(), hook)
    return execute(case, body)


def judge20(run, cfg, ops, call_lines, out, hook):
    ev = parse_trace(out)
    pressure = cfg.get('session', {}).get('max_memory', 65534) < 65534
    m = Model20(cfg)
    pos = [0]

    def take_until(tag, idx):
        """Events up to and excluding the marker ('#', tag, [idx]); None if the marker is missing."""
        got = []
        while pos[0] < len(ev):
            e = ev[pos[0]]
            pos[0] += 1
            if e[0] == '#' and e[1] == tag and e[2] and e[2][0] == str(idx):
                return got
            got.append(e)
        return None

    def take_dump():
        d_, n_ = None, None
        if pos[0] < len(ev) and ev[pos[0]][0] == '#' and ev[pos[0]][1] == 'D' and ev[pos[0]][3]:
            d_ = ev[pos[0]][2]
            pos[0] += 1
        if pos[0] < len(ev) and ev[pos[0]][0] == '#' and ev[pos[0]][1] == 'N' and ev[pos[0]][3]:
            n_ = ev[pos[0]][2]
            pos[0] += 1
        if d_ is None or n_ is None or len(d_) != len(DUMP_S) or len(n_) != len(DUMP_N):
            return None
        dump = {}
        for k, v in zip(DUMP_S, d_):
            dump[_norm(k)] = v
        for k, v in zip(DUMP_N, n_):
            dump[_norm(k)] = v
        return dump

    def model_text(name):
        v = m.get(name)
        if v is UNK:
            return None
        if _vtype(name) == 's':
            return v
        f = fmt_num(v)
        return None if f is None else f + ' '

    def resync(name, txt):
        """Model value of one variable from its dump text (after an accepted divergence)."""
        name = _norm(name)
        if _vtype(name) == 's':
            m.g[name] = txt
        else:
            try:
                m.g[name] = Fraction(txt.strip())
            except (ValueError, ZeroDivisionError):
                m.g[name] = UNK

    gc_on = bool(cfg.get('gc_k'))
    lost = False
    # errors reported for non-call lines (possible under memory pressure only)
    errlines = {}
    for e in ev:
        if e[0] == 'stop':
            errlines.setdefault(e[2], e[1])
        elif e[0] == '#' and e[1] == 'E' and e[3] and len(e[2]) == 2:
            try:
                errlines.setdefault(int(e[2][1]), int(e[2][0]))
            except ValueError:
                pass
    for i, op in enumerate(ops):
        if op['op'] in ('def', 'let') and (LINE0 + 10 * i) in errlines:
            code = errlines[LINE0 + 10 * i]
            if pressure and code in (7, 14):
                run.probe('pressure-error')
            else:
                run.violate('C20', 'unexpected-error-in-%s:%d' % (op['op'], code),
                            'line %d reported error %d\nprogram:\n%s' % (LINE0 + 10 * i, code, _listing(cfg, ops)))
            continue
        if op['op'] == 'def':
            m.defs[op['fn']] = op['body']
            continue
        if op['op'] == 'let':
            m.begin_stmt([])
            try:
                val = conv_to(m.ev(op['e']), _sig(op['var']))
                m.g[_norm(op['var'])] = val[1]
            except BErr:
                pass
            except Interrupted:
                pass
            continue
        # call
        line = LINE0 + 10 * i + 1
        pre = take_until('B', i)
        if pre is None:
            if not lost:
                lost = True
                run.violate('C20', 'trace-lost:before-call',
                            'no "#B|%d|" marker in the output; program did not reach call %d\n%s' % (i, i, _tail(out)))
            break
        before = take_dump()
        mid = take_until('A', i)
        after = take_dump() if mid is not None else None
        if before is None or mid is None or after is None:
            lost = True
            run.violate('C20', 'trace-lost:around-call',
                        'dump or "#A|%d|" marker missing around call %d (%s)\n%s' % (i, i, expr_text(op['e']), _tail(out)))
            break
        # ---- model
        m.begin_stmt(op.get('acts'))
        target = _norm(op['var']) if op['ctx'] == 'let' else None
        outcome = None
        try:
            val = m.ev(op['e'])
            if target:
                val = conv_to(val, _sig(target))
            outcome = ('ok', val)
        except BErr as e:
            outcome = ('err', e.code)
        except Interrupted as e:
            outcome = (e.kind,)
        pe = op.get('pevt')
        relaxed = bool(pe and pe['act'] in ('break', 'quit'))
        shadow = _shadow_class(cfg, op, m)
        # ---- what the engine did
        results = [e for e in mid if e[0] == '#' and e[1] == 'R']
        errs = [e for e in mid if (e[0] == '#' and e[1] == 'E' and e[3]) or e[0] == 'stop']
        breaks = [e for e in mid if e[0] == 'break']
        tdumps = []
        for j, e in enumerate(mid):
            if e[0] == '#' and e[1] == 'T':
                dd = {}
                if j + 2 < len(mid) and mid[j + 1][1:2] == ('D',) and mid[j + 2][1:2] == ('N',):
                    for k, v in zip(DUMP_S, mid[j + 1][2]):
                        dd[_norm(k)] = v
                    for k, v in zip(DUMP_N, mid[j + 2][2]):
                        dd[_norm(k)] = v
                tdumps.append(dd)
        got_err = None
        if errs:
            e = errs[0]
            got_err = (int(e[2][0]), int(e[2][1])) if e[0] == '#' else (e[1], e[2])
        if outcome[0] == 'ok':
            ok_kind = 'ok'
        else:
            ok_kind = outcome[0]
        run.state('call', op['ctx'], ok_kind if ok_kind != 'err' else 'err%d' % outcome[1],
                  len(cfg['fns'].get(op['e'][1], [])) if op['e'][0] == 'fn' else -1, shadow, gc_on,
                  bool(cfg.get('onerror')), pe['act'] if pe else (op.get('acts') or ['-'])[0][:1])
        if m.recursed:
            run.probe('recursion-reached')
        if m.waits:
            run.probe('model-blocking-wait', m.waits)
        if outcome[0] in ('break', 'quit'):
            run.probe('interrupted-' + outcome[0])
        # ---- oracle A: the property itself - dump after == dump before (except the target)
        expect_target = None
        assigned = False
        for name in before:
            if name == target:
                continue
            if before[name] != after[name]:
                run.violate('C20', 'caller-var-changed:%s:%s:after-%s' % (
                    _var_class(cfg, op, name), shadow, ok_kind),
                    'call %d at line %d: %s\n%s was %r before the call and %r after it (model outcome %r; forced gc k=%s; '
                    'delivered %r)\nprogram:\n%s' % (i, line, _stmt_text(op), name, before[name], after[name], outcome,
                                                    cfg.get('gc_k'), [a for a in hook.delivered if a[0] == i],
                                                    _listing(cfg, ops)))
        # ---- oracle B: dump before == model (then resynchronise so one defect is reported once)
        for name in before:
            mt = model_text(name)
            if mt is not None and mt != before[name]:
                run.violate('C20', 'dump-differs-from-model:%s' % ('str' if _vtype(name) == 's' else 'num'),
                            'before call %d: %s reads %r, model %r\nprogram:\n%s' % (i, name, before[name], mt, _listing(cfg, ops)))
            if mt is None or mt != before[name]:
                resync(name, before[name])
        # ---- oracle C: outcome
        softmsg = m.soft > 0
        interrupted_seen = bool(breaks) or any(a[0] == i and a[1] == 'quit' for a in hook.delivered)
        if relaxed:
            # Break/QUIT at the n-th poll in this line: it may land inside the evaluation or at the
            # boundary after it. Either nothing or the uninterrupted result is acceptable.
            run.probe('poll-keyed-interrupt')
            if target:
                resync(target, after[target])
                if after[target] != before[target] and outcome[0] == 'ok' and outcome[1][1] is not UNK:
                    m.g[target] = outcome[1][1]
                    mt = model_text(target)
                    if mt is not None and mt != after[target]:
                        run.violate('C20', 'result-mismatch:let:interrupted',
                                    'call %d %s: %s became %r, model %r or unchanged %r' % (
                                        i, _stmt_text(op), target, after[target], mt, before[target]))
                        resync(target, after[target])
            elif results and results[0][3] and outcome[0] == 'ok' and outcome[1][1] is not UNK:
                exp = _result_text(outcome[1])
                if exp is not None and len(exp) < 60 and results[0][2] != [exp]:
                    run.violate('C20', 'result-mismatch:print:interrupted',
                                'call %d %s printed %r, model %r' % (i, _stmt_text(op), results[0][2], exp))
        elif outcome[0] == 'ok':
            val = outcome[1]
            if got_err is not None:
                if pressure and got_err[0] in (7, 14):
                    run.probe('pressure-error')
                    if target:
                        resync(target, after[target])
                else:
                    run.violate('C20', 'unexpected-error:%d' % got_err[0],
                                'call %d at line %d: %s\nreported error %r, model value %r\nprogram:\n%s' % (
                                    i, line, _stmt_text(op), got_err, val, _listing(cfg, ops)))
                    if target:
                        resync(target, after[target])
            elif breaks:
                run.violate('C20', 'unexpected-break', 'call %d: Break reported, model outcome %r' % (i, outcome))
            else:
                exp = _result_text(val)
                if target:
                    if exp is None:
                        resync(target, after[target])
                    else:
                        m.g[target] = val[1]
                        if after[target] != exp:
                            run.violate('C20', 'result-mismatch:let',
                                        'call %d at line %d: %s\n%s reads %r after the call, model %r\nprogram:\n%s' % (
                                            i, line, _stmt_text(op), target, after[target], exp, _listing(cfg, ops)))
                            resync(target, after[target])
                else:
                    if not results or not results[0][3]:
                        run.violate('C20', 'result-missing', 'call %d at line %d: %s\nno complete result line; events %r' % (
                            i, line, _stmt_text(op), mid))
                    elif exp is not None and len(exp) < 60 and results[0][2] != [exp]:
                        run.violate('C20', 'result-mismatch:print',
                                    'call %d at line %d: %s\nprinted %r, model %r (parameters take the converted '
                                    'argument values)\nprogram:\n%s' % (i, line, _stmt_text(op), results[0][2], exp,
                                                                       _listing(cfg, ops)))
        elif outcome[0] == 'err':
            code = outcome[1]
            if target and after[target] != before[target]:
                run.violate('C20', 'caller-var-changed:target-of-failed-call:%s:after-err' % shadow,
                            'call %d %s failed (model error %d) but %s changed from %r to %r' % (
                                i, _stmt_text(op), code, target, before[target], after[target]))
                resync(target, after[target])
            if got_err is None:
                if m.recursed and code == 7:
                    run.violate('C20', 'recursion-no-out-of-memory',
                                'call %d at line %d: %s\na function calling itself must raise Out of memory; events %r\n'
                                'program:\n%s' % (i, line, _stmt_text(op), mid, _listing(cfg, ops)))
                else:
                    run.violate('C20', 'error-missing:%d' % code,
                                'call %d at line %d: %s\nmodel error %d, engine reported none; events %r\nprogram:\n%s' % (
                                    i, line, _stmt_text(op), code, mid, _listing(cfg, ops)))
            elif got_err[0] != code and not (pressure and got_err[0] in (7, 14)):
                run.violate('C20', 'error-mismatch:model-%d:engine-%d' % (code, got_err[0]),
                            'call %d at line %d: %s\nmodel error %d, engine %r\nprogram:\n%s' % (
                                i, line, _stmt_text(op), code, got_err, _listing(cfg, ops)))
            elif got_err[1] != line:
                run.violate('C20', 'error-line-mismatch', 'call %d: error %d reported for line %d, call is in line %d' % (
                    i, got_err[0], got_err[1], line))
        else:
            # break / quit consumed by a blocking wait inside the evaluation
            if target and after[target] != before[target]:
                run.violate('C20', 'caller-var-changed:target-of-interrupted-call:%s:after-%s' % (shadow, outcome[0]),
                            'call %d %s was interrupted (%s) but %s changed from %r to %r' % (
                                i, _stmt_text(op), outcome[0], target, before[target], after[target]))
                resync(target, after[target])
            if results and results[0][3]:
                run.violate('C20', 'result-after-interrupt:%s' % outcome[0],
                            'call %d %s: model says the evaluation was interrupted by %s, but a result was printed: %r\n'
                            'delivered %r\nprogram:\n%s\n%s' % (
                                i, _stmt_text(op), outcome[0], results[0][2], hook.delivered, _listing(cfg, ops), _tail(out)))
            if outcome[0] == 'break' and not breaks:
                run.violate('C20', 'break-not-reported', 'call %d %s: no Break message; events %r; delivered %r' % (
                    i, _stmt_text(op), mid, hook.delivered))
        # ---- trap handler dumps: the handler runs after the statement, so it sees the after-state
        for dd in tdumps:
            run.probe('trap-handler-dump')
            if dd and dd != after:
                diff = [k for k in after if dd.get(k) != after[k]]
                run.violate('C20', 'trap-handler-sees-parameter-values',
                            'call %d %s: ON KEY handler dump differs from the dump after the call in %r: %r vs %r' % (
                                i, _stmt_text(op), diff, dd, after))
    # the program must finish
    if not lost and not any(e[0] == '#' and e[1] == 'FIN' for e in ev):
        run.violate('C20', 'trace-lost:no-fin', 'program did not reach its last line\n%s' % _tail(out))


def _tail(out):
    return 'output tail: %r' % out[-600:]


def _stmt_text(op):
    if op['ctx'] == 'let':
        return '%s=%s' % (op['var'], expr_text(op['e']))
    return 'PRINT %s' % expr_text(op['e'])


def _listing(cfg, ops):
    lines, _ = program20(cfg, ops)
    return '\n'.join(u(l) for l in lines if not (LINE0 <= int(l.split()[0]) < FIN_LINE) or b'#B' not in l and b'#A' not in l)


def _result_text(val):
    t, v = val
    if v is UNK:
        return None
    if t == 's':
        return v
    f = fmt_num(v)
    return None if f is None else f + ' '


def _called_fns(cfg, node, m, seen=None):
    seen = set() if seen is None else seen
    if node[0] == 'fn' and node[1] not in seen:
        seen.add(node[1])
        if node[1] in m.defs:
            _called_fns(cfg, m.defs[node[1]], m, seen)
    for sub in node[1:]:
        if isinstance(sub, list):
            if sub and isinstance(sub[0], str) and sub[0] in _KINDS:
                _called_fns(cfg, sub, m, seen)
            else:
                for x in sub:
                    if isinstance(x, list):
                        _called_fns(cfg, x, m, seen)
    return seen


def _shadow_class(cfg, op, m):
    """Does any function reachable from the call have a string / numeric parameter?"""
    fns = _called_fns(cfg, op['e'], m)
    ps = set()
    for f in fns:
        ps.update(_norm(p) for p in cfg['fns'].get(f, []))
    if any(_vtype(p) == 's' for p in ps):
        return 'str-param'
    if ps:
        return 'num-param'
    return 'no-param'


def _var_class(cfg, op, name):
    ps = set()
    for f in cfg['fns']:
        ps.update(_norm(p) for p in cfg['fns'][f])
    kind = 'str' if _vtype(name) == 's' else 'num'
    if '(' in name:
        return 'array-element-' + kind
    if name in ps:
        return 'parameter-name-' + kind
    return 'other-variable-' + kind


def simplify20(cfg, ops):
    for key, val in (('gc_k', 0), ('trap', False), ('onerror', False)):
        if cfg.get(key):
            yield dict(cfg, **{key: val}), ops
    if cfg.get('gc_k', 0) > 1:
        yield dict(cfg, gc_k=1), ops
    if cfg.get('session', {}).get('max_memory', 65534) != 65534:
        yield dict(cfg, session={'max_memory': 65534}), ops
    for i, op in enumerate(ops):
        if op['op'] == 'call':
            if op.get('pevt'):
                yield cfg, ops[:i] + [dict(op, pevt=None)] + ops[i + 1:]
            if op.get('acts'):
                for j in range(len(op['acts'])):
                    yield cfg, ops[:i] + [dict(op, acts=op['acts'][:j] + op['acts'][j + 1:])] + ops[i + 1:]
            if op['ctx'] == 'let':
                yield cfg, ops[:i] + [dict(op, ctx='print')] + ops[i + 1:]
        # replace an expression by one of its sub-expressions of the same kind
        key = 'body' if op['op'] == 'def' else 'e'
        for sub in _subexprs(op[key]):
            yield cfg, ops[:i] + [dict(op, **{key: sub})] + ops[i + 1:]


def _etype(node):
    k = node[0]
    if k in ('s', 'str', 'left', 'mid0', 'in1', 'inkey', 'gcs'):
        return 's'
    if k in ('n', 'len', 'asc', 'div0', 'ovf', 'gcn'):
        return 'n'
    if k in ('v', 'e', 'fn'):
        return _vtype(node[1])
    if k == '+':
        return _etype(node[1])
    return '?'


def _subexprs(node):
    t = _etype(node)
    if node[0] == '+':
        for s in (node[1], node[2]):
            if _etype(s) == t:
                yield s
    if node[0] == 'fn':
        for j, a in enumerate(node[2]):
            for s in _subexprs(a):
                yield ['fn', node[1], node[2][:j] + [s] + node[2][j + 1:]]
    elif node[0] == '+':
        for s in _subexprs(node[1]):
            yield ['+', s, node[2]]
        for s in _subexprs(node[2]):
            yield ['+', node[1], s]


###############################################################################
# entry points (C21 is added below)

def gen(rng, tier, prop):
    if prop == 'C20':
        return gen20(rng, tier)
    return gen21(rng, tier)


def run(case):
    simfs.install_fs_seams()
    if case['prop'] == 'C20':
        return run20(case)
    return run21(case)


def simplify(cfg, ops):
    if 'fns' in cfg:
        return simplify20(cfg, ops)
    return simplify21(cfg, ops)


def gen21(rng, tier):
    raise NotImplementedError


def run21(case):
    raise NotImplementedError


def simplify21(cfg, ops):
    return iter(())
