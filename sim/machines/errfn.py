"""
errfn machine - C20 (DEF FN never disturbs the caller's variables) and C21 (error trapping
reports and resumes at the right place).

C20  A generated program (lets, DEF FNs, calls) is RUN in interact mode. Every call statement is
     bracketed by two dumps of a fixed roster of variables (names shared with the parameters).
     Function bodies can block (INPUT$(1)) or poll (INKEY$), so the simulator delivers, at the
     blocked poll inside the evaluation: a key, Ctrl-Break (then CONT), QUIT (suspend -> close ->
     resume) or a trapped F1 (ON KEY(1) GOSUB). Bodies contain fault-prone subexpressions,
     conversions that fail, self/mutual recursion. Forced GC (seam S7) and small memories.
     Parameter lists may name one variable more than once: literally (A$,A$), through sigil
     completion (X,X!) or through the DEFtype in force for K (DEFINT K: K,K%); the dumps cover
     K!, K% and K# as well. Which argument a repeated parameter shows in the body is left unknown.
     Oracles: dump after == dump before (apart from the assignment target); dumps == model;
     result / error code / ERL == a small reference evaluator; recursion -> error 7.

C21  A generated program of multi-statement lines, nested GOSUBs and a fixed error handler is RUN;
     fault sites are ERROR n, real runtime faults and device statements whose host call fails
     with a chosen errno for the first r attempts (simfs), the handler resumes by RESUME /
     RESUME NEXT / RESUME n / ON ERROR GOTO 0 as selected by a variable set at the site; then
     direct-mode lines. Schedules: an ON KEY(1) GOSUB routine (fault sites from its first statement
     on) entered between two statements when the simulated user presses F1 during a wait - taken
     at once, or remembered under KEY(1) STOP and taken after KEY(1) ON / the routine's RETURN;
     STOP in the program and inside the handler (B%), each Break answered by a typed CONT; a second,
     bare handler (RESUME <exit line>, evaluates nothing) whose landing line may start with STOP.
     Oracle: a reference model of the statement pointer; full trace equality; bounded liveness in
     polls once the faults stop.
"""

import os
import re
import logging
import errno as _errno
from fractions import Fraction

from .. import kernel as K
from ..basicdrv import Driver, EngineCrash, ByteSink, interact, suspend_resume, ERRMSG, MSG2ERR
from .. import simfs
from .common import Run, execute, b, u, shash

NAME = 'errfn'
PROPS = ('C20', 'C21')
RULE = ('one evaluation = one generated program run to completion in interact mode under one '
        'fault/interrupt plan; C20: distinct = (call context, model outcome, #params, shadowing, '
        'forced-gc on, handler armed, interrupt kind) per call; C21: distinct = (statement kind, '
        'error code, resume form, handler armed, in-subroutine, direct mode, fault remaining) per '
        'executed model statement; non-trivial = at least one call / one trapped or reported error')
REAL = ['pcbasic.basic (whole package)', 'pcbasic.basic.parser.userfunctions', 'pcbasic.basic.interpreter',
        'pcbasic.basic.memory (string space, collector)', 'pcbasic.basic.devices.disk on tmpfs',
        'pcbasic.basic.state (pickle/zlib) for suspend/resume']
STUB = ['wall clock (simulated)', 'keyboard/user (Typist + position-keyed poll hook)',
        'host FS errors (simfs fault plan)', 'video/audio consumers (recording queues)']
ASSUMPTIONS = [
    'C20: values are restricted to short alphanumeric strings and multiples of 1/4 so that the reference '
    'evaluator needs no float formatting; .5 -> integer rounding, soft (untrapped) float errors and '
    'dynamic scoping of an outer function\'s parameter are left unchecked (result unknown)',
    'C21: event trapping only as documented for KEY(n) ON/STOP and the automatic stop/re-enable around the '
    'trap routine; explicit KEY(1) statements while the routine has not returned, KEY(1) OFF with a key press '
    'remembered, a pending trap in program code run from a direct line, STOP in a direct line and RETURN/RESUME '
    'into a direct line replaced by CONT are left unchecked (model stops comparing)',
    'C21: read/write faults use EIO only (stream errors are documented as Device I/O error); '
    'host write faults on PRINT# are not generated (known defect: OSError escapes TextFileBase.write)',
]
BATCH = 10


def quick_runs(prop):
    return {'C20': 2400, 'C21': 8000}.get(prop, 500)


###############################################################################
# S7: forced garbage collection

class ForcedGC(object):
    """
    Wrap DataSegment.check_free so that at every k-th call (k recorded in the case)
    _collect_garbage() runs first. Collection is semantically transparent by C10/C20/C23
    themselves, so this only makes a rarely-taken path common. _collect_garbage honours
    hold_garbage(), so a legitimate hold is respected.
    """

    def __init__(self, world, k, phase=0):
        self.w = world
        self.k = int(k or 0)
        self.n = int(phase or 0)
        self.orig = None
        self.cls = None

    def __enter__(self):
        from pcbasic.basic.memory.memory import DataSegment
        self.cls = DataSegment
        self.orig = orig = DataSegment.check_free
        me = self

        def check_free(seg, size, err):
            if me.k:
                me.n += 1
                if me.n % me.k == 0:
                    me.w.faults['forced-gc'] += 1
                    seg._collect_garbage()
            return orig(seg, size, err)

        DataSegment.check_free = check_free
        return self

    def __exit__(self, *exc):
        self.cls.check_free = self.orig
        return False


###############################################################################
# shared: output parsing and the prompt-side user

_STOP_RE = re.compile(b'^(.*?)([A-Za-z/\' ]+?) in (\\d+)\xff$')
_ERRLINE_RE = re.compile(b'^([A-Za-z/\' ]+?)\xff$')


def parse_trace(out):
    """
    Split the output pipe into events:
      ('#', tag, [fields], complete)   a line the program printed, starting with '#'
      ('stop', code, line)             error report 'msg in N'
      ('derr', code)                   error report without a line (direct mode)
      ('break', line)                  'Break in N'
    Everything else (echo of typed lines, Ok prompts, FILES listings, soft float messages) is skipped.
    """
    ev = []
    pieces = out.split(b'\r\n')
    lines = []
    i = 0
    while i < len(pieces):
        raw = pieces[i]
        # a program line that filled the 80-column screen line exactly was wrapped by the console
        # PRINT also starts a new screen line before a string that does not fit on the current one
        if raw.startswith(b'#'):
            last = raw
            while i + 1 < len(pieces) and not pieces[i + 1].startswith(b'#') and (
                    (len(last) == 80 and not raw.endswith(b'|'))
                    or (pieces[i + 1].endswith(b'|') and b'\xff' not in pieces[i + 1])
                ):
                i += 1
                last = pieces[i]
                raw += last
        lines.append(raw)
        i += 1
    for raw in lines:
        if not raw:
            continue
        if raw.startswith(b'#'):
            txt = raw.decode('latin-1')
            complete = txt.endswith('|') and '^C' not in txt
            parts = txt[1:].split('|')
            tag = parts[0]
            ev.append(('#', tag, parts[1:-1] if complete else parts[1:], complete))
            continue
        m = _STOP_RE.match(raw)
        if m:
            msg = m.group(2)
            line = int(m.group(3))
            if msg == b'Break':
                ev.append(('break', line))
                continue
            code = _msgcode(msg)
            if code is not None:
                ev.append(('stop', code, line))
                continue
        m = _ERRLINE_RE.match(raw)
        if m and raw != b'Ok\xff':
            code = _msgcode(m.group(1))
            if code is not None:
                ev.append(('derr', code))
    return ev


def _msgcode(msg):
    if msg in MSG2ERR:
        return MSG2ERR[msg]
    if msg == b'Unprintable error':
        return -1
    for k in sorted(MSG2ERR, key=len, reverse=True):
        if msg.endswith(k):
            return MSG2ERR[k]
    if msg.endswith(b'Unprintable error'):
        return -1
    return None


class Sinks(object):
    """The output pipe across suspend/resume (each resumed Session gets a fresh sink)."""

    def __init__(self):
        self.sinks = [ByteSink('sink0')]

    @property
    def current(self):
        return self.sinks[-1]

    def add(self, session):
        s = ByteSink('sink%d' % len(self.sinks))
        session.add_pipes(output_streams=s)
        self.sinks.append(s)

    def value(self):
        return b''.join(s.getvalue() for s in self.sinks)


###############################################################################
###############################################################################
# C20

STR_VARS = ['A$', 'B$']
NUM_VARS = ['I%', 'J%', 'X!', 'K', 'U#']
ARR_VARS = ['A$(1)', 'I%(1)']
# further spellings of the roster's variables, used in parameter lists: K completes to K!, K% or K#
# depending on the DEFtype in force (cfg['defk']); X completes to X!
ALIAS_VARS = ['K!', 'K%', 'K#', 'X']
PARAM_POOL = STR_VARS + NUM_VARS + ALIAS_VARS
DUMP_S = ['A$', 'B$', 'A$(1)']
DUMP_N = ['I%', 'J%', 'X!', 'K', 'U#', 'I%(1)']
DUMP_O = ['K!', 'K%', 'K#']          # third dump line (kept apart so that no dump line exceeds the screen width)
DEFK = {'%': 'DEFINT', '!': 'DEFSNG', '#': 'DEFDBL'}
FN_NAMES = ['FNP$', 'FNQ$', 'FNR', 'FNS%', 'FNT#']
BLOCK_T = 14          # idle polls in one line before the hook decides the engine is blocked
MAX_INKEY = 8         # model gives up (unknown) beyond this many INKEY$ per statement
LINE0 = 100
FIN_LINE = 7000
TRAP_LINE = 7500
DUMP_LINE = 8000
ERR_LINE = 9000

UNK = ('?',)


def _norm(name, dk=None):
    """Variable name with explicit sigil (default single; names in K take the DEFtype sigil dk)."""
    base = name.split('(')[0]
    if base[-1] not in '$%!#':
        sig = dk if (dk and base[0] == 'K') else '!'
        return name.replace(base, base + sig, 1)
    return name


def _vtype(name):
    return 's' if _norm(name).split('(')[0][-1] == '$' else 'n'


def _sig(name, dk=None):
    return _norm(name, dk).split('(')[0][-1]


class BErr(Exception):
    def __init__(self, code):
        Exception.__init__(self, code)
        self.code = code


class Interrupted(Exception):
    def __init__(self, kind):
        Exception.__init__(self, kind)
        self.kind = kind


def fmt_num(v):
    """PRINT/STR$ representation (without trailing blank) of a multiple of 1/4, |v| <= 9999.75."""
    if v is UNK:
        return None
    v = Fraction(v)
    if abs(v) > 9999 or (v * 4).denominator != 1:
        return None
    neg = v < 0
    a = abs(v)
    ip = int(a)
    fr = a - ip
    frs = {Fraction(0): '', Fraction(1, 4): '.25', Fraction(1, 2): '.5', Fraction(3, 4): '.75'}[fr]
    if ip == 0:
        body = frs if frs else '0'
    else:
        body = str(ip) + frs
    return ('-' if neg else ' ') + body


def conv_to(val, sigil):
    """Convert a model value to the type of a variable/function with this sigil."""
    t, v = val
    if sigil == '$':
        if t != 's':
            raise BErr(13)
        return val
    if t != 'n':
        raise BErr(13)
    if sigil == '%':
        if v is UNK:
            return ('n', UNK)
        a = abs(v)
        fr = a - int(a)
        if fr == Fraction(1, 2):
            # rounding of halves is left out of the oracle
            if a > 32768:
                raise BErr(6)
            return ('n', UNK)
        r = Fraction(int(a + Fraction(1, 2)))
        if v < 0:
            r = -r
        if r < -32768 or r > 32767:
            raise BErr(6)
        return ('n', r)
    return val


def expr_text(node):
    k = node[0]
    if k == 's':
        return '"%s"' % node[1]
    if k == 'n':
        q = node[1]
        v = Fraction(q, 4)
        if v.denominator == 1:
            txt = str(abs(int(v)))
        else:
            ip = int(abs(v))
            txt = (str(ip) if ip else '') + {1: '.25', 2: '.5', 3: '.75'}[abs(q) % 4]
        return '(-%s)' % txt if q < 0 else txt
    if k == 'v' or k == 'e':
        return node[1]
    if k == '+':
        return '(%s+%s)' % (expr_text(node[1]), expr_text(node[2]))
    if k == 'len':
        return 'LEN(%s)' % expr_text(node[1])
    if k == 'str':
        return 'STR$(%s)' % expr_text(node[1])
    if k == 'left':
        return 'LEFT$(%s,%d)' % (expr_text(node[1]), node[2])
    if k == 'asc':
        return 'ASC(%s)' % expr_text(node[1])
    if k == 'mid0':
        return 'MID$(%s,0)' % expr_text(node[1])
    if k == 'div0':
        return '(%s/0)' % expr_text(node[1])
    if k == 'ovf':
        return 'CINT(100000)'
    if k == 'in1':
        return 'INPUT$(1)'
    if k == 'inkey':
        return 'INKEY$'
    if k == 'gcs':
        return 'LEFT$(STR$(FRE("")),0)'
    if k == 'gcn':
        return '(FRE("")*0)'
    if k == 'fn':
        if node[2]:
            return '%s(%s)' % (node[1], ','.join(expr_text(a) for a in node[2]))
        return node[1]
    raise ValueError(node)


def expr_has(node, kinds):
    if node[0] in kinds:
        return True
    for sub in node[1:]:
        if isinstance(sub, list):
            if sub and isinstance(sub[0], str) and sub[0] in _KINDS:
                if expr_has(sub, kinds):
                    return True
            else:
                for x in sub:
                    if isinstance(x, list) and expr_has(x, kinds):
                        return True
    return False


_KINDS = {'s', 'n', 'v', 'e', '+', 'len', 'str', 'left', 'asc', 'mid0', 'div0', 'ovf', 'in1', 'inkey',
          'gcs', 'gcn', 'fn'}


class Model20(object):
    """Reference evaluator for the C20 expression language."""

    def __init__(self, cfg):
        self.cfg = cfg
        self.dk = cfg.get('defk')
        self.g = {}
        self.defs = {}
        self.frames = []       # [(fn, {param names})]
        self.acts = None
        self.soft = 0
        self.traps = 0
        self.inkeys = 0
        self.waits = 0
        self.depth_max = 0
        self.recursed = False
        self.dup_bound = False

    def get(self, name):
        name = _norm(name, self.dk)
        if name in self.g:
            return self.g[name]
        return '' if _vtype(name) == 's' else Fraction(0)

    def begin_stmt(self, acts):
        self.acts = list(acts or [])
        self.soft = 0
        self.traps = 0
        self.inkeys = 0
        self.waits = 0
        self.depth_max = 0
        self.recursed = False
        self.dup_bound = False

    def next_key(self):
        """What the blocked INPUT$(1) gets: mirrors the poll hook's consumption of the action list."""
        self.waits += 1
        while True:
            if not self.acts:
                return 'z'
            a = self.acts.pop(0)
            if a == 'trap':
                if self.cfg.get('trap'):
                    self.traps += 1
                continue
            if a in ('break', 'quit'):
                raise Interrupted(a)
            if a.startswith('k:'):
                return a[2:]

    def ev(self, node):
        k = node[0]
        if k == 's':
            return ('s', node[1])
        if k == 'n':
            return ('n', Fraction(node[1], 4))
        if k in ('v', 'e'):
            name = _norm(node[1], self.dk)
            t = _vtype(name)
            if k == 'v' and self.frames:
                if name not in self.frames[-1][1] and any(name in f[1] for f in self.frames[:-1]):
                    # free variable that is a parameter of an outer active function: unspecified
                    return (t, UNK)
            return (t, self.get(name))
        if k == '+':
            a = self.ev(node[1])
            c = self.ev(node[2])
            if a[0] != c[0]:
                raise BErr(13)
            if a[1] is UNK or c[1] is UNK:
                return (a[0], UNK)
            if a[0] == 's':
                if len(a[1]) + len(c[1]) > 255:
                    raise BErr(15)
                return ('s', a[1] + c[1])
            return ('n', a[1] + c[1])
        if k == 'len':
            a = self.ev(node[1])
            if a[0] != 's':
                raise BErr(13)
            return ('n', UNK if a[1] is UNK else Fraction(len(a[1])))
        if k == 'str':
            a = self.ev(node[1])
            if a[0] != 'n':
                raise BErr(13)
            f = fmt_num(a[1])
            return ('s', UNK if f is None else f)
        if k == 'left':
            a = self.ev(node[1])
            if a[0] != 's':
                raise BErr(13)
            return ('s', UNK if a[1] is UNK else a[1][:node[2]])
        if k == 'asc':
            a = self.ev(node[1])
            if a[0] != 's':
                raise BErr(13)
            if a[1] is UNK:
                return ('n', UNK)
            if not a[1]:
                raise BErr(5)
            return ('n', Fraction(ord(a[1][0])))
        if k == 'mid0':
            a = self.ev(node[1])
            if a[0] != 's':
                raise BErr(13)
            raise BErr(5)
        if k == 'div0':
            a = self.ev(node[1])
            if a[0] != 'n':
                raise BErr(13)
            if self.cfg.get('onerror'):
                raise BErr(11)
            self.soft += 1
            return ('n', UNK)
        if k == 'ovf':
            raise BErr(6)
        if k == 'in1':
            return ('s', self.next_key())
        if k == 'inkey':
            self.inkeys += 1
            return ('s', '' if self.inkeys <= MAX_INKEY else UNK)
        if k == 'gcs':
            return ('s', '')
        if k == 'gcn':
            return ('n', Fraction(0))
        if k == 'fn':
            return self.call(node[1], node[2])
        raise ValueError(node)

    def conv(self, val, sigil):
        if sigil == '%' and val[0] == 'n' and val[1] is UNK:
            # an unknown number (e.g. the machine infinity a soft division by zero left in a variable)
            # may or may not fit an integer: the outcome of the statement is unknown
            self.soft += 1
        return conv_to(val, sigil)

    def call(self, fn, args):
        if fn not in self.defs:
            raise BErr(18)
        params = [_norm(p, self.dk) for p in self.cfg['fns'][fn]]
        if len(args) != len(params):
            raise BErr(2)
        vals = []
        for a, p in zip(args, params):
            vals.append(self.conv(self.ev(a), _sig(p)))
        if any(f[0] == fn for f in self.frames):
            self.recursed = True
            raise BErr(7)
        saved = {}
        for p in params:
            saved.setdefault(p, self.g.get(p))
        bound = {}
        for p, v in zip(params, vals):
            if p in bound and bound[p] != v[1]:
                # a name that occurs more than once in the parameter list with different argument
                # values: which of them the body sees is not stated by the property - left unknown.
                # (The caller's variable of that name must come back unchanged all the same.)
                bound[p] = UNK
                self.dup_bound = True
            else:
                bound.setdefault(p, v[1])
        self.g.update(bound)
        self.frames.append((fn, set(params)))
        self.depth_max = max(self.depth_max, len(self.frames))
        try:
            res = self.ev(self.defs[fn])
            return self.conv(res, _sig(fn))
        finally:
            self.frames.pop()
            for p, v in saved.items():
                if v is None:
                    self.g.pop(p, None)
                else:
                    self.g[p] = v


# ---------------------------------------------------------------------------
# generation

_WORDS = ['ab', 'cd', 'xyz', 'q', 'hello', 'w0', 'mno', 'tt', 'k9', 'zebra']


def _gen_lit(rng, t):
    if t == 's':
        return ['s', rng.choice(_WORDS)]
    return ['n', rng.choice([0, 4, 8, 12, 13, 15, 28, -4, -13, -15, 5, 7, 400, -400, 1001, rng.randint(-1200, 1200)])]


def _gen_expr(rng, t, cx, depth):
    """Well-typed expression of type t. cx: dict(params, fns, block, faults, gc, self)."""
    r = rng.random()
    params = [p for p in cx['params'] if _vtype(p) == t]
    if depth <= 0 or r < 0.22:
        if params and rng.random() < 0.7:
            return ['v', rng.choice(params)]
        rr = rng.random()
        if rr < 0.45:
            return _gen_lit(rng, t)
        if rr < 0.85:
            return ['v', rng.choice(STR_VARS if t == 's' else NUM_VARS)]
        return ['e', 'A$(1)' if t == 's' else 'I%(1)']
    if r < 0.50:
        return ['+', _gen_expr(rng, t, cx, depth - 1), _gen_expr(rng, t, cx, depth - 1)]
    if r < 0.62:
        if t == 's':
            if rng.random() < 0.6:
                return ['str', _gen_expr(rng, 'n', cx, depth - 1)]
            return ['left', _gen_expr(rng, 's', cx, depth - 1), rng.randint(0, 4)]
        if rng.random() < 0.6:
            return ['len', _gen_expr(rng, 's', cx, depth - 1)]
        return ['asc', ['+', _gen_expr(rng, 's', cx, depth - 1), ['s', 'm']]]
    if r < 0.74 and cx['fns']:
        cands = [f for f in cx['fns'] if _vtype(f) == t]
        if cands:
            fn = rng.choice(cands)
            return ['fn', fn, _gen_args(rng, cx['sigs'][fn], cx, depth - 1, cx.get('mism', 0.0))]
    if r < 0.82 and cx.get('block'):
        if t == 's':
            return ['in1'] if rng.random() < 0.7 else ['inkey']
        return ['asc', ['in1']] if rng.random() < 0.7 else ['len', ['inkey']]
    if r < 0.90 and cx.get('faults'):
        if t == 's':
            return rng.choice([['mid0', _gen_expr(rng, 's', cx, 0)], ['left', ['str', ['ovf']], 2],
                               ['str', ['asc', ['s', '']]]])
        return rng.choice([['div0', _gen_expr(rng, 'n', cx, 0)], ['ovf'], ['asc', ['s', '']],
                           ['len', ['mid0', _gen_expr(rng, 's', cx, 0)]]])
    if r < 0.96 and cx.get('gc'):
        return ['+', ['gcs'] if t == 's' else ['gcn'], _gen_expr(rng, t, cx, depth - 1)]
    return _gen_lit(rng, t)


def _gen_args(rng, params, cx, depth, mism):
    args = []
    dk = cx.get('dk')
    for p in params:
        t = _vtype(p)
        r = rng.random()
        if r < mism:
            # an argument that fails to convert
            if t == 'n' and _sig(p, dk) == '%' and rng.random() < 0.5:
                args.append(['n', rng.choice([160000, -160000, 131072])])
            else:
                args.append(_gen_expr(rng, 's' if t == 'n' else 'n', cx, 0))
        elif t == 'n' and _sig(p, dk) == '%' and r < mism + 0.2:
            args.append(['n', rng.choice([13, 15, -13, -15, 29, 31])])
        else:
            a = _gen_expr(rng, t, cx, depth)
            if t == 's' and rng.random() < 0.5:
                # make it a temporary in string space
                a = ['+', a, ['s', rng.choice(_WORDS)]]
            args.append(a)
    return args


def gen20(rng, tier):
    thorough = tier != 'quick'
    sigs = {}
    # DEFtype in force for names in K: decides which variable the unsuffixed K is
    dk = rng.choice([None, None, '%', '#', '!'])
    for fn in FN_NAMES:
        n = rng.choice([0, 1, 1, 2, 2, 3, 4])
        ps = []
        # a parameter list may name the same variable more than once: literally, or through
        # spellings that complete to the same name (X and X!; K and K%/K#/K! under the DEFtype)
        dup = n >= 2 and rng.random() < 0.3
        while len(ps) < n:
            if dup and ps and (len(ps) == n - 1 or rng.random() < 0.4):
                q = rng.choice(ps)
                al = [x for x in PARAM_POOL if _norm(x, dk) == _norm(q, dk)]
                ps.insert(rng.randrange(len(ps) + 1), rng.choice(al + [q]))
                dup = False
                continue
            p = rng.choice(PARAM_POOL)
            if _norm(p, dk) not in [_norm(x, dk) for x in ps]:
                ps.append(p)
        sigs[fn] = ps
    faulty = rng.random() < 0.6          # fault-injecting arm (interrupts, forced gc, pressure)
    cfg = {
        'fns': sigs,
        'defk': dk,
        'onerror': rng.random() < 0.5,
        'trap': rng.random() < 0.4,
        'gc_k': rng.choice([1, 2, 3, 5, 7]) if faulty and rng.random() < 0.7 else 0,
        'session': {'max_memory': rng.choice([65534, 65534, 20000, 12000]) if faulty else 65534},
        'world': {},
    }
    ops = []
    defined = []
    n_ops = rng.randint(6, 16 if not thorough else 40)
    n_calls = 0
    for i in range(n_ops):
        r = rng.random()
        if r < 0.30 or (not defined and r < 0.6):
            fn = rng.choice(FN_NAMES)
            cx = {'params': sigs[fn], 'sigs': sigs, 'dk': dk,
                  'fns': [f for f in FN_NAMES if f != fn and rng.random() < 0.5], 'mism': 0.05,
                  'block': faulty and rng.random() < 0.5, 'faults': rng.random() < 0.4, 'gc': rng.random() < 0.5}
            body = _gen_expr(rng, _vtype(fn), cx, rng.randint(1, 3))
            if cx['block'] and rng.random() < 0.7:
                # make sure the evaluation blocks (or polls) somewhere
                w_ = ['in1'] if rng.random() < 0.75 else ['inkey']
                w_ = w_ if _vtype(fn) == 's' else ['len', w_]
                body = ['+', body, w_] if rng.random() < 0.5 else ['+', w_, body]
            rr = rng.random()
            if rr < 0.08:
                # direct self-recursion
                body = ['+', body, ['fn', fn, _gen_args(rng, sigs[fn], dict(cx, fns=[]), 0, 0.0)]]
            elif rr < 0.14:
                other = rng.choice([f for f in FN_NAMES if f != fn and _vtype(f) == _vtype(fn)] or [fn])
                body = ['+', body, ['fn', other, _gen_args(rng, sigs[other], dict(cx, fns=[]), 0, 0.0)]]
            ops.append({'op': 'def', 'fn': fn, 'body': body})
            if fn not in defined:
                defined.append(fn)
        elif r < 0.50:
            var = rng.choice(STR_VARS + NUM_VARS + ARR_VARS + ALIAS_VARS[:3])
            t = _vtype(var)
            cx = {'params': [], 'fns': [], 'sigs': sigs, 'dk': dk}
            e = _gen_expr(rng, t, cx, rng.randint(0, 1))
            if t == 'n' and _sig(var, dk) == '%':
                e = _gen_lit(rng, 'n')
            ops.append({'op': 'let', 'var': var, 'e': e})
        else:
            fn = rng.choice(defined if defined and rng.random() < 0.9 else FN_NAMES)
            cx = {'params': [], 'sigs': sigs, 'dk': dk, 'fns': [f for f in defined if rng.random() < 0.3],
                  'mism': 0.12, 'block': False, 'faults': rng.random() < 0.15, 'gc': rng.random() < 0.3}
            e = ['fn', fn, _gen_args(rng, sigs[fn], cx, 1, 0.12)]
            if rng.random() < 0.2:
                e = ['+', e, _gen_expr(rng, _vtype(fn), cx, 0)]
            op = {'op': 'call', 'e': e, 'ctx': 'print', 'acts': [], 'pevt': None}
            if rng.random() < 0.35:
                t = _vtype(fn)
                op['ctx'] = 'let'
                op['var'] = rng.choice([v for v in STR_VARS + NUM_VARS + ARR_VARS if _vtype(v) == t])
            if faulty:
                acts = []
                for _ in range(rng.randint(0, 3)):
                    acts.append(rng.choice(['k:a', 'k:b', 'k:7', 'trap', 'break', 'break', 'quit', 'quit', 'k:m']))
                op['acts'] = acts
                if rng.random() < 0.15:
                    op['pevt'] = {'n': rng.randint(1, 4), 'act': rng.choice(['break', 'quit', 'trap'])}
            ops.append(op)
            n_calls += 1
    return {'machine': NAME, 'prop': 'C20', 'cfg': cfg, 'ops': ops}


# ---------------------------------------------------------------------------
# program text

def program20(cfg, ops):
    """-> (lines [bytes], call_lines {lineno: op index})."""
    lines = []
    call_lines = {}
    lines.append('10 KEY OFF')
    if cfg.get('defk'):
        lines.append('15 %s K' % DEFK[cfg['defk']])
    if cfg.get('onerror'):
        lines.append('20 ON ERROR GOTO %d' % ERR_LINE)
    if cfg.get('trap'):
        lines.append('30 ON KEY(1) GOSUB %d:KEY(1) ON' % TRAP_LINE)
    for i, op in enumerate(ops):
        n = LINE0 + 10 * i
        if op['op'] == 'let':
            lines.append('%d %s=%s' % (n, op['var'], expr_text(op['e'])))
        elif op['op'] == 'def':
            fn = op['fn']
            ps = cfg['fns'][fn]
            lines.append('%d DEF %s%s=%s' % (n, fn, '(%s)' % ','.join(ps) if ps else '', expr_text(op['body'])))
        elif op['op'] == 'call':
            lines.append('%d PRINT "#B|%d|":GOSUB %d' % (n, i, DUMP_LINE))
            if op['ctx'] == 'let':
                lines.append('%d %s=%s' % (n + 1, op['var'], expr_text(op['e'])))
            else:
                lines.append('%d PRINT "#R|";%s;"|"' % (n + 1, expr_text(op['e'])))
            call_lines[n + 1] = i
            lines.append('%d PRINT "#A|%d|":GOSUB %d' % (n + 2, i, DUMP_LINE))
    lines.append('%d PRINT "#FIN|":END' % FIN_LINE)
    lines.append('%d PRINT "#T|":GOSUB %d:RETURN' % (TRAP_LINE, DUMP_LINE))
    lines.append('%d PRINT "#D|";%s;"|"' % (DUMP_LINE, ';"|";'.join(DUMP_S)))
    lines.append('%d PRINT "#N|";%s;"|"' % (DUMP_LINE + 10, ';"|";'.join(DUMP_N)))
    lines.append('%d PRINT "#O|";%s;"|"' % (DUMP_LINE + 20, ';"|";'.join(DUMP_O)))
    lines.append('%d RETURN' % (DUMP_LINE + 30))
    # the leading PRINT ends a partially printed "#R|" line
    lines.append('%d PRINT:PRINT "#E|";ERR;"|";ERL;"|":RESUME NEXT' % ERR_LINE)
    return [b(l) for l in lines], call_lines


# ---------------------------------------------------------------------------
# the user at the keyboard: position-keyed interrupts + prompt-side continuation

class Hook20(object):
    def __init__(self, run, sinks, cfg, ops, call_lines, all_lines):
        self.run = run
        self.all_lines = all_lines
        self.sinks = sinks
        self.cfg = cfg
        self.ops = ops
        self.call_lines = call_lines
        self.st = {}
        self.quit_pending = False
        self.parsed = 0
        self.delivered = []       # (op index, act) for diagnostics
        self.typed = {}
        self.prompt_idle = 0

    def state(self, line):
        if line not in self.st:
            op = self.ops[self.call_lines[line]]
            self.st[line] = {'polls': 0, 'idle': 0, 'acts': list(op.get('acts') or []), 'pevt_done': False}
        return self.st[line]

    def deliver(self, w, t, opi, act):
        self.delivered.append((opi, act))
        if act == 'break':
            w.inputs.pending.append(K.sig_break())
            w.faults['break-in-fn'] += 1
        elif act == 'quit':
            w.inputs.pending.append(K.sig_quit())
            self.quit_pending = True
            w.faults['quit-in-fn'] += 1
        elif act == 'trap':
            from pcbasic.basic.base import scancode
            w.inputs.pending.append(K.sig_key(u'\0\x3b', scancode.F1, ()))
            w.faults['trap-in-fn'] += 1
        elif act.startswith('k:'):
            w.inputs.pending.append(K.sig_key(act[2:], None, ()))

    def __call__(self, w, t):
        if self.quit_pending:
            return
        impl = t.d.s._impl
        interp = impl.interpreter
        if interp.parse_mode and interp.run_mode:
            self.prompt_idle = 0
            # scheduling observation only: which line is the engine in?
            line = impl.program.get_line_number(interp.current_statement)
            if line not in self.call_lines:
                return
            st = self.state(line)
            opi = self.call_lines[line]
            op = self.ops[opi]
            st['polls'] += 1
            pe = op.get('pevt')
            if pe and not st['pevt_done'] and st['polls'] == pe['n']:
                st['pevt_done'] = True
                if pe['act'] != 'trap' or self.cfg.get('trap'):
                    self.deliver(w, t, opi, pe['act'])
                    return
            if t.engine_idle() and not w.inputs.pending:
                st['idle'] += 1
            else:
                st['idle'] = 0
            if st['idle'] >= BLOCK_T:
                st['idle'] = 0
                while True:
                    act = st['acts'].pop(0) if st['acts'] else 'k:z'
                    if act == 'trap' and not self.cfg.get('trap'):
                        continue
                    break
                self.run.probe('blocked-in-fn')
                self.deliver(w, t, opi, act)
            return
        if t.at_prompt() and t.engine_idle() and not w.inputs.pending and t.pos >= len(t.script):
            # the program stopped: decide how the user continues it
            out = self.sinks.value()
            ev = parse_trace(out[self.parsed:])
            self.parsed = len(out)
            nxt = None
            for e in ev:
                if e[0] == 'break':
                    nxt = u'CONT'
                elif e[0] == 'stop':
                    later = [n for n in self.all_lines if n > e[2]]
                    if LINE0 <= e[2] < FIN_LINE and later:
                        nxt = u'GOTO %d' % later[0]
                    else:
                        nxt = None
                elif e[0] == '#' and e[1] == 'FIN':
                    nxt = None
            if nxt is not None:
                self.typed[nxt] = self.typed.get(nxt, 0) + 1
                if nxt != u'CONT' and self.typed[nxt] > 2:
                    return          # the same continuation again and again: give up, the judge reports it
                t.script.append({'t': 'line', 'text': nxt})


# ---------------------------------------------------------------------------
# run + judge

def _fields_equal(a, b_):
    return a == b_


def run20(case):
    cfg = case['cfg']
    ops = case['ops']

    ctx = {}

    def body(run):
        w = run.w
        scratch = run.make_scratch()
        lines, call_lines = program20(cfg, ops)
        sinks = ctx['sinks'] = Sinks()
        with w, ForcedGC(w, cfg.get('gc_k', 0)):
            d = Driver(w, output_streams=sinks.current, **cfg.get('session', {}))
            for l in lines:
                r = d.exec(l)
                if r.errs:
                    # the program does not fit (memory pressure arm): nothing to judge
                    run.probe('program-entry-error')
                    d.close()
                    return
            hook = Hook20(run, sinks, cfg, ops, call_lines, sorted(int(l.split()[0]) for l in lines))
            script = [{'t': 'line', 'text': u'RUN'}]
            n_resume = 0
            while True:
                t = interact(d, script, extra=hook, poll_cap=60000, stall_polls=3000)
                if hook.quit_pending:
                    hook.quit_pending = False
                    n_resume += 1
                    d = suspend_resume(d, os.path.join(scratch, 'state%d.bin' % n_resume))
                    sinks.add(d.s)
                    script = t.script[t.pos:]
                    continue
                break
            run.res['stats']['stalled'] += t.stalled
            d.close()
        judge20(run, cfg, ops, call_lines, sinks.value(), hook)

    def guarded(run):
        try:
            body(run)
        except EngineCrash as e:
            # same innermost frame, different defects: say where the detached string was met
            if e.signature.endswith('strings.py:_retrieve'):
                where = 'in-collector' if 'collect_garbage' in e.tb else 'in-dereference'
                # ... and when: inside the call statement, or later when the variables are read
                tags = [x[1] for x in parse_trace(ctx['sinks'].value()) if x[0] == '#']
                last = [t_ for t_ in tags if t_ in ('B', 'A', 'T')][-1:] or ['start']
                n_after = len(tags) - 1 - max([j for j, t_ in enumerate(tags) if t_ in ('B', 'A', 'T')] or [-1])
                phase = {'B': 'in-call-statement' if n_after >= 3 else 'in-dump-before-call',
                         'A': 'in-dump-after-call', 'T': 'in-trap-handler-dump', 'start': 'before-first-call'}[last[0]]
                where += ':' + phase
                run.res['status'] = 'crash'
                run.violate('C20', 'crash:%s:%s' % (e.signature, where),
                            '%s: %s (during %r)\n%s\nprogram:\n%s' % (e.exc_type, e.exc_msg, e.where, e.tb[-1500:],
                                                                       _listing(cfg, ops)))
                return
            raise
    return execute(case, guarded)


def judge20(run, cfg, ops, call_lines, out, hook):
    ev = parse_trace(out)
    pressure = cfg.get('session', {}).get('max_memory', 65534) < 65534
    m = Model20(cfg)
    dk = cfg.get('defk')
    pos = [0]

    def take_until(tag, idx):
        """Events up to and excluding the marker ('#', tag, [idx]); None if the marker is missing."""
        got = []
        while pos[0] < len(ev):
            e = ev[pos[0]]
            pos[0] += 1
            if e[0] == '#' and e[1] == tag and e[2] and e[2][0] == str(idx):
                return got
            got.append(e)
        return None

    def take_dump():
        d_, n_, o_ = None, None, None
        if pos[0] < len(ev) and ev[pos[0]][0] == '#' and ev[pos[0]][1] == 'D' and ev[pos[0]][3]:
            d_ = ev[pos[0]][2]
            pos[0] += 1
        if pos[0] < len(ev) and ev[pos[0]][0] == '#' and ev[pos[0]][1] == 'N' and ev[pos[0]][3]:
            n_ = ev[pos[0]][2]
            pos[0] += 1
        if pos[0] < len(ev) and ev[pos[0]][0] == '#' and ev[pos[0]][1] == 'O' and ev[pos[0]][3]:
            o_ = ev[pos[0]][2]
            pos[0] += 1
        if (d_ is None or n_ is None or o_ is None or len(d_) != len(DUMP_S) or len(n_) != len(DUMP_N)
                or len(o_) != len(DUMP_O)):
            return None
        return _dump_dict(d_, n_, o_, dk)

    def model_text(name):
        v = m.get(name)
        if v is UNK:
            return None
        if _vtype(name) == 's':
            return v
        f = fmt_num(v)
        return None if f is None else f + ' '

    def resync(name, txt):
        """Model value of one variable from its dump text (after an accepted divergence)."""
        name = _norm(name, dk)
        if _vtype(name) == 's':
            m.g[name] = txt
        else:
            try:
                m.g[name] = Fraction(txt.strip())
            except (ValueError, ZeroDivisionError):
                m.g[name] = UNK

    gc_on = bool(cfg.get('gc_k'))
    lost = False
    # errors reported for non-call lines (possible under memory pressure only)
    errlines = {}
    for e in ev:
        if e[0] == 'stop':
            errlines.setdefault(e[2], e[1])
        elif e[0] == '#' and e[1] == 'E' and e[3] and len(e[2]) == 2:
            try:
                errlines.setdefault(int(e[2][1]), int(e[2][0]))
            except ValueError:
                pass
    for i, op in enumerate(ops):
        if op['op'] in ('def', 'let') and (LINE0 + 10 * i) in errlines:
            code = errlines[LINE0 + 10 * i]
            if pressure and code in (7, 14):
                run.probe('pressure-error')
            else:
                run.violate('C20', 'unexpected-error-in-%s:%d' % (op['op'], code),
                            'line %d reported error %d\nprogram:\n%s' % (LINE0 + 10 * i, code, _listing(cfg, ops)))
            continue
        if op['op'] == 'def':
            m.defs[op['fn']] = op['body']
            continue
        if op['op'] == 'let':
            m.begin_stmt([])
            try:
                val = conv_to(m.ev(op['e']), _sig(op['var'], dk))
                m.g[_norm(op['var'], dk)] = val[1]
            except BErr:
                pass
            except Interrupted:
                pass
            continue
        # call
        line = LINE0 + 10 * i + 1
        pre = take_until('B', i)
        if pre is None:
            if not lost:
                lost = True
                run.violate('C20', 'trace-lost:before-call',
                            'no "#B|%d|" marker in the output; program did not reach call %d\n%s' % (i, i, _tail(out)))
            break
        before = take_dump()
        mid = take_until('A', i)
        after = take_dump() if mid is not None else None
        if before is None or mid is None or after is None:
            lost = True
            run.violate('C20', 'trace-lost:around-call',
                        'dump or "#A|%d|" marker missing around call %d (%s)\n%s' % (i, i, expr_text(op['e']), _tail(out)))
            break
        # ---- model. An evaluation interrupted by Break (then CONT) or QUIT (then resume) may be
        # abandoned or - as this engine does for a statement interrupted inside an expression -
        # re-executed from its start, consuming the remaining user actions. Both are accepted.
        m.begin_stmt(op.get('acts'))
        target = _norm(op['var'], dk) if op['ctx'] == 'let' else None
        attempts = []
        while len(attempts) < 10:
            try:
                val = m.ev(op['e'])
                if target:
                    val = conv_to(val, _sig(target))
                attempts.append(('ok', val))
                break
            except BErr as e:
                attempts.append(('err', e.code))
                break
            except Interrupted as e:
                attempts.append((e.kind,))
        final = attempts[-1]
        n_int = sum(1 for a in attempts if a[0] in ('break', 'quit'))
        pe = op.get('pevt')
        relaxed = bool(pe and pe['act'] in ('break', 'quit'))
        shadow = _shadow_class(cfg, op, m)
        unknown = m.soft > 0 or (final[0] == 'ok' and final[1][1] is UNK)
        # ---- what the engine did
        results = []
        for e in mid:
            if e[0] == '#' and e[1] == 'R' and e[3]:
                flds = list(e[2])
                while flds and flds[0] == '#R':
                    flds = flds[1:]          # "#R|" printed again by a re-executed PRINT
                results.append(flds)
        errs = [e for e in mid if (e[0] == '#' and e[1] == 'E' and e[3]) or e[0] == 'stop']
        breaks = [e for e in mid if e[0] == 'break']
        tdumps = []
        for j, e in enumerate(mid):
            if e[0] == '#' and e[1] == 'T':
                dd = {}
                if (j + 3 < len(mid) and mid[j + 1][1:2] == ('D',) and mid[j + 2][1:2] == ('N',)
                        and mid[j + 3][1:2] == ('O',)):
                    dd = _dump_dict(mid[j + 1][2], mid[j + 2][2], mid[j + 3][2], dk)
                tdumps.append(dd)
        got_err = None
        if errs:
            e = errs[-1]
            try:
                got_err = (int(e[2][0]), int(e[2][1])) if e[0] == '#' else (e[1], e[2])
            except (ValueError, IndexError):
                got_err = (-2, -2)
        ok_kind = 'interrupt' if (n_int or relaxed) else final[0]
        run.state('call', op['ctx'], final[0] if final[0] != 'err' else 'err%d' % final[1], n_int,
                  len(cfg['fns'].get(op['e'][1], [])) if op['e'][0] == 'fn' else -1, shadow, gc_on,
                  bool(cfg.get('onerror')), pe['act'] if pe else '-')
        if m.recursed:
            run.probe('recursion-reached')
        if m.waits:
            run.probe('model-blocking-wait', m.waits)
        for a in attempts[:-1]:
            run.probe('interrupted-' + a[0])
        # ---- oracle A: the property itself - dump after == dump before (except the target)
        for name in before:
            if name == target:
                continue
            if before[name] != after[name]:
                run.violate('C20', 'caller-var-changed:%s:%s:after-%s' % (
                    _var_class(cfg, op, name, m), shadow, ok_kind),
                    'call %d at line %d: %s\n%s was %r before the call and %r after it (model outcome %r; forced gc k=%s; '
                    'delivered %r)\nprogram:\n%s' % (i, line, _stmt_text(op), name, before[name], after[name], attempts,
                                                    cfg.get('gc_k'), [a for a in hook.delivered if a[0] == i],
                                                    _listing(cfg, ops)))
        # ---- oracle B: dump before == model (then resynchronise so one defect is reported once)
        for name in before:
            mt = model_text(name)
            if mt is not None and mt != before[name]:
                run.violate('C20', 'dump-differs-from-model:%s' % ('str' if _vtype(name) == 's' else 'num'),
                            'before call %d: %s reads %r, model %r\nprogram:\n%s' % (i, name, before[name], mt, _listing(cfg, ops)))
            if mt is None or mt != before[name]:
                resync(name, before[name])
        # ---- oracle C: outcome
        res_class = _result_class(cfg, op, m)
        nothing = not results and got_err is None
        # only a Break that the simulator actually delivered (the call really blocked) must be reported;
        # the model may expect a block that an earlier argument error pre-empted (soft float corner)
        if any(a[0] == 'break' for a in attempts) and not breaks and any(
                dl[0] == i and dl[1] == 'break' for dl in hook.delivered):
            run.violate('C20', 'break-not-reported', 'call %d %s: no Break message; events %r; delivered %r' % (
                i, _stmt_text(op), mid, hook.delivered))
        if breaks and not relaxed and not any(a[0] == 'break' for a in attempts):
            run.violate('C20', 'unexpected-break', 'call %d %s: Break reported, model outcome %r' % (i, _stmt_text(op), attempts))
        if (relaxed or n_int) and nothing and (not target or after[target] == before[target]):
            # interrupted and abandoned (or an assignment of the value the target already had)
            run.probe('interrupted-statement-abandoned')
        elif final[0] == 'ok':
            if relaxed or n_int:
                run.probe('interrupted-statement-completed')
            val = final[1]
            if got_err is not None:
                if pressure and got_err[0] in (7, 14):
                    run.probe('pressure-error')
                elif unknown:
                    run.probe('unknown-outcome')
                else:
                    run.violate('C20', 'unexpected-error:%d' % got_err[0],
                                'call %d at line %d: %s\nreported error %r, model value %r\nprogram:\n%s' % (
                                    i, line, _stmt_text(op), got_err, val, _listing(cfg, ops)))
                if target:
                    resync(target, after[target])
            else:
                exp = None if unknown else _result_text(val)
                if target:
                    if exp is None:
                        resync(target, after[target])
                    else:
                        m.g[target] = val[1]
                        if after[target] != exp:
                            run.violate('C20', 'result-mismatch:%s' % res_class,
                                        'call %d at line %d: %s\n%s reads %r after the call, model %r (attempts %r)\nprogram:\n%s' % (
                                            i, line, _stmt_text(op), target, after[target], exp, attempts, _listing(cfg, ops)))
                            resync(target, after[target])
                elif not results:
                    if not unknown:
                        run.violate('C20', 'result-missing', 'call %d at line %d: %s\nno complete result line; events %r' % (
                            i, line, _stmt_text(op), mid))
                elif exp is not None and len(exp) < 60 and results[-1] != [exp]:
                    run.violate('C20', 'result-mismatch:%s' % res_class,
                                'call %d at line %d: %s\nprinted %r, model %r (parameters take the converted '
                                'argument values; attempts %r)\nprogram:\n%s' % (i, line, _stmt_text(op), results[-1], exp,
                                                                                 attempts, _listing(cfg, ops)))
        elif final[0] == 'err':
            code = final[1]
            if target and after[target] != before[target]:
                run.violate('C20', 'caller-var-changed:target-of-failed-call:%s' % shadow,
                            'call %d %s failed (model error %d) but %s changed from %r to %r' % (
                                i, _stmt_text(op), code, target, before[target], after[target]))
                resync(target, after[target])
            if got_err is None:
                if m.recursed and code == 7:
                    run.violate('C20', 'recursion-no-out-of-memory',
                                'call %d at line %d: %s\na function calling itself must raise Out of memory; events %r\n'
                                'program:\n%s' % (i, line, _stmt_text(op), mid, _listing(cfg, ops)))
                elif not m.soft:
                    run.violate('C20', 'error-missing:%d' % code,
                                'call %d at line %d: %s\nmodel error %d, engine reported none; events %r\nprogram:\n%s' % (
                                    i, line, _stmt_text(op), code, mid, _listing(cfg, ops)))
            elif got_err[0] != code and not (pressure and got_err[0] in (7, 14)) and not m.soft:
                run.violate('C20', 'error-mismatch:model-%d:engine-%d' % (code, got_err[0]),
                            'call %d at line %d: %s\nmodel error %d, engine %r\nprogram:\n%s' % (
                                i, line, _stmt_text(op), code, got_err, _listing(cfg, ops)))
            elif got_err[1] != line:
                run.violate('C20', 'error-line-mismatch', 'call %d: error %d reported for line %d, call is in line %d' % (
                    i, got_err[0], got_err[1], line))
        else:
            # more interruptions than the model follows: only the dumps are judged
            if target:
                resync(target, after[target])
        # ---- trap handler dumps: the handler runs after the statement, so it sees the after-state
        for dd in tdumps:
            run.probe('trap-handler-dump')
            # the assignment target is left out: when the statement is interrupted (QUIT/Break) after the
            # trap was triggered, the handler legitimately runs before the statement is re-executed
            diff = [k for k in after if dd and dd.get(k) != after[k] and k != target]
            if dd and diff:
                run.violate('C20', 'trap-handler-sees-parameter-values',
                            'call %d %s: ON KEY handler dump differs from the dump after the call in %r: %r vs %r' % (
                                i, _stmt_text(op), diff, dd, after))
    # the program must finish
    if not lost and not any(e[0] == '#' and e[1] == 'FIN' for e in ev):
        run.violate('C20', 'trace-lost:no-fin', 'program did not reach its last line\n%s' % _tail(out))


def _dump_dict(d_, n_, o_, dk):
    """{normalised variable name: dump text}; the unsuffixed K and one of K!/K%/K# are the same variable."""
    dump = {}
    for names, flds in ((DUMP_S, d_), (DUMP_N, n_), (DUMP_O, o_)):
        for k, v in zip(names, flds):
            dump[_norm(k, dk)] = v
    return dump


def _tail(out):
    return 'output tail: %r' % out[-600:]


def _stmt_text(op):
    if op['ctx'] == 'let':
        return '%s=%s' % (op['var'], expr_text(op['e']))
    return 'PRINT %s' % expr_text(op['e'])


def _listing(cfg, ops):
    lines, _ = program20(cfg, ops)
    return '\n'.join(u(l) for l in lines if not (LINE0 <= int(l.split()[0]) < FIN_LINE) or b'#B' not in l and b'#A' not in l)


def _result_text(val):
    t, v = val
    if v is UNK:
        return None
    if t == 's':
        return v
    f = fmt_num(v)
    return None if f is None else f + ' '


def _called_fns(cfg, node, m, seen=None):
    seen = set() if seen is None else seen
    if node[0] == 'fn' and node[1] not in seen:
        seen.add(node[1])
        if node[1] in m.defs:
            _called_fns(cfg, m.defs[node[1]], m, seen)
    for sub in node[1:]:
        if isinstance(sub, list):
            if sub and isinstance(sub[0], str) and sub[0] in _KINDS:
                _called_fns(cfg, sub, m, seen)
            else:
                for x in sub:
                    if isinstance(x, list):
                        _called_fns(cfg, x, m, seen)
    return seen


def _call_nodes(node):
    if node[0] == 'fn':
        yield node
    for sub in node[1:]:
        if isinstance(sub, list):
            if sub and isinstance(sub[0], str) and sub[0] in _KINDS:
                for c in _call_nodes(sub):
                    yield c
            else:
                for x in sub:
                    if isinstance(x, list):
                        for c in _call_nodes(x):
                            yield c


def _shadow_class(cfg, op, m):
    """Does any function reachable from the call have a string / numeric parameter?"""
    fns = _called_fns(cfg, op['e'], m)
    ps = set()
    for f in fns:
        ps.update(_norm(p) for p in cfg['fns'].get(f, []))
    if any(_vtype(p) == 's' for p in ps):
        return 'str-param'
    if ps:
        return 'num-param'
    return 'no-param'


def _result_class(cfg, op, m):
    """Shape of the outermost called function's body, for violation signatures."""
    fns = sorted(_called_fns(cfg, op['e'], m))
    for node in [op['e']] + [m.defs[f] for f in fns if f in m.defs]:
        for call in _call_nodes(node):
            ps = [_norm(p, cfg.get('defk')) for p in cfg['fns'].get(call[1], [])]
            for j, a in enumerate(call[2]):
                # a bare variable passed for parameter j that names an earlier parameter i < j
                if a[0] == 'v' and _norm(a[1], cfg.get('defk')) in ps[:j]:
                    return 'argument-is-bare-variable-named-like-an-earlier-parameter'
    for fn in fns:
        body = m.defs.get(fn)
        if body and body[0] in ('v', 'e') and _sig(body[1], cfg.get('defk')) == _sig(fn):
            return 'body-is-bare-variable-of-result-type'
    return op['ctx']


def _var_class(cfg, op, name, m=None):
    dk = cfg.get('defk')
    ps = set()
    for f in cfg['fns']:
        ps.update(_norm(p, dk) for p in cfg['fns'][f])
    kind = 'str' if _vtype(name) == 's' else 'num'
    if '(' in name:
        return 'array-element-' + kind
    if m is not None:
        # named more than once in the parameter list of a function this call reaches
        for f in sorted(_called_fns(cfg, op['e'], m)):
            fps = [_norm(p, dk) for p in cfg['fns'].get(f, [])]
            if fps.count(name) > 1:
                return 'repeated-parameter-name-' + kind
    if name in ps:
        return 'parameter-name-' + kind
    return 'other-variable-' + kind


def simplify20(cfg, ops):
    for key, val in (('gc_k', 0), ('trap', False), ('onerror', False), ('defk', None)):
        if cfg.get(key):
            yield dict(cfg, **{key: val}), ops
    if cfg.get('gc_k', 0) > 1:
        yield dict(cfg, gc_k=1), ops
    if cfg.get('session', {}).get('max_memory', 65534) != 65534:
        yield dict(cfg, session={'max_memory': 65534}), ops
    for i, op in enumerate(ops):
        if op['op'] == 'call':
            if op.get('pevt'):
                yield cfg, ops[:i] + [dict(op, pevt=None)] + ops[i + 1:]
            if op.get('acts'):
                for j in range(len(op['acts'])):
                    yield cfg, ops[:i] + [dict(op, acts=op['acts'][:j] + op['acts'][j + 1:])] + ops[i + 1:]
            if op['ctx'] == 'let':
                yield cfg, ops[:i] + [dict(op, ctx='print')] + ops[i + 1:]
        # replace an expression by one of its sub-expressions of the same kind
        key = 'body' if op['op'] == 'def' else 'e'
        for sub in _subexprs(op[key]):
            yield cfg, ops[:i] + [dict(op, **{key: sub})] + ops[i + 1:]


def _etype(node):
    k = node[0]
    if k in ('s', 'str', 'left', 'mid0', 'in1', 'inkey', 'gcs'):
        return 's'
    if k in ('n', 'len', 'asc', 'div0', 'ovf', 'gcn'):
        return 'n'
    if k in ('v', 'e', 'fn'):
        return _vtype(node[1])
    if k == '+':
        return _etype(node[1])
    return '?'


def _subexprs(node):
    t = _etype(node)
    if node[0] == '+':
        for s in (node[1], node[2]):
            if _etype(s) == t:
                yield s
    if node[0] == 'fn':
        for j, a in enumerate(node[2]):
            for s in _subexprs(a):
                yield ['fn', node[1], node[2][:j] + [s] + node[2][j + 1:]]
    elif node[0] == '+':
        for s in _subexprs(node[1]):
            yield ['+', s, node[2]]
        for s in _subexprs(node[2]):
            yield ['+', node[1], s]


###############################################################################
# entry points (C21 is added below)

def gen(rng, tier, prop):
    if prop == 'C20':
        return gen20(rng, tier)
    return gen21(rng, tier)


def run(case):
    simfs.install_fs_seams()
    # the engine logs every translated host error; keep the workers' stderr quiet
    logging.disable(logging.CRITICAL)
    if case['prop'] == 'C20':
        return run20(case)
    return run21(case)


def simplify(cfg, ops):
    if 'fns' in cfg:
        return simplify20(cfg, ops)
    return simplify21(cfg, ops)



###############################################################################
###############################################################################
# C21

ERRNO_CODE = {   # the documented table devices/disk.py:OS_ERROR
    'ENOENT': 53, 'EISDIR': 53, 'ENOTDIR': 53,
    'EAGAIN': 70, 'EACCES': 70, 'EBUSY': 70, 'EROFS': 70, 'EPERM': 70,
    'ENOSPC': 61, 'ENXIO': 71, 'ENODEV': 71, 'EIO': 57, 'EEXIST': 75, 'ENOTEMPTY': 75,
}
BAD = {   # real runtime faults: kind -> (text, code)
    'ovf': ('Z%=40000', 6), 'asc': ('Z%=ASC("")', 5), 'tm': ('Z$=1', 13), 'sub': ('Z%=Q%(99)', 9),
    'undef': ('GOTO 64000', 8), 'fn': ('Z=FNQ(1)', 18), 'data': ('READ Z', 4), 'nxt': ('NEXT', 1),
    'str': ('Z$=STRING$(200,"A")+STRING$(100,"B")', 15), 'div': ('Z!=1/0', 11), 'wend': ('WEND', 30),
    'bfn': ('PRINT #3,"X"', 52), 'fnf': ('OPEN "NOSUCH.DAT" FOR INPUT AS #3', 53), 'ifc': ('Z$=MID$("A",0)', 5),
    'cint': ('Z%=CINT(1E9)', 6),
}
ERR_CODES = [1, 3, 5, 6, 7, 9, 11, 13, 21, 53, 57, 61, 70, 77, 200, 255, 0]
MAIN0 = 100
FIN21 = 4000
SUB0 = 5000
T0 = 6000          # the ON KEY(1) GOSUB subroutine
XL = 3990          # exit line: where the bare handler resumes (statements in cfg['exit']), then FIN
HX = 9500          # the bare handler: nothing but RESUME XL
H0 = 9000
HB = H0 + 15       # the handler's STOP
MAX_CONT = 40
MAX_F1 = 3
REC_OLD = 'REC1DATA'
REC_NEW = 'NEWDATA!'


def main_line(k):
    return MAIN0 + 10 * k


def sub_line(k):
    return SUB0 + 10 * k


def expand(stmts):
    """op-level statements -> list of (BASIC text, semantics tuple), one per BASIC statement."""
    out = []
    for st in stmts:
        k = st[0]
        if k == 'm':
            out.append(('PRINT "#M|%d|"' % st[1], ('mark', st[1])))
        elif k == 'err':
            out.append(('ERROR %d' % st[1], ('err', st[1])))
        elif k == 'bad':
            out.append((BAD[st[1]][0], ('bad', st[1])))
        elif k == 'seti':
            out.append(('I%%=%d' % st[1], ('seti', st[1])))
        elif k == 'fix':
            out.append(('Z%=Q%(I%)', ('fix',)))
        elif k == 'sel':
            out.append(('R%%=%d' % st[1], ('sel', st[1])))
        elif k == 'selh':
            out.append(('H%%=%d' % st[1], ('selh', st[1])))
        elif k == 'selb':
            out.append(('B%%=%d' % st[1], ('selb', st[1])))
        elif k == 'stop':
            out.append(('STOP', ('stop',)))
        elif k == 'onkey':
            out.append(('ON KEY(1) GOSUB %d' % T0, ('onkey',)))
        elif k == 'key':
            out.append(('KEY(1) %s' % st[1], ('key', st[1])))
        elif k == 'kwait':
            # the simulator presses F1 (if the model has the trap enabled) and then x while INPUT$ waits
            out.append(('PRINT "#K|%d|"' % st[1], ('kmark', st[1])))
            out.append(('Z$=INPUT$(1)', ('kwait',)))
        elif k == 'gosub':
            out.append(('GOSUB %d' % sub_line(st[1]), ('gosub', st[1])))
        elif k == 'ret':
            out.append(('RETURN', ('ret',)))
        elif k == 'onerr':
            out.append(('ON ERROR GOTO %d' % {0: 0, 1: H0, 2: HX}[st[1]], ('onerr', st[1])))
        elif k == 'resume':
            f = st[1]
            txt = 'RESUME' if f == '' else ('RESUME NEXT' if f == 'NEXT' else 'RESUME %d' % main_line(f))
            out.append((txt, ('resume', f)))
        elif k == 'end':
            out.append(('END', ('end',)))
        elif k == 'if':
            inner = expand([st[1]])
            if len(inner) == 1:
                out.append(('IF 1 THEN ' + inner[0][0], inner[0][1]))
            else:
                out.extend(inner)
        elif k == 'dev':
            kind, f = st[1], st[2]
            if kind == 'openi':
                out.append(('OPEN "%s.DAT" FOR INPUT AS #1' % f, ('open', f, 'I', 1)))
                out.append(('CLOSE #1', ('close', 1)))
            elif kind == 'openo':
                out.append(('OPEN "%s.DAT" FOR OUTPUT AS #1' % f, ('open', f, 'O', 1)))
                out.append(('CLOSE #1', ('close', 1)))
            elif kind == 'get':
                out.append(('OPEN "%s.DAT" AS #2 LEN=8' % f, ('open', f, 'R', 2)))
                out.append(('FIELD #2,8 AS G$', ('field', 2)))
                out.append(('GET #2,1', ('get', 2)))
                out.append(('PRINT "#G|";G$;"|"', ('printg',)))
                out.append(('CLOSE #2', ('close', 2)))
            elif kind == 'put':
                out.append(('OPEN "%s.DAT" AS #2 LEN=8' % f, ('open', f, 'R', 2)))
                out.append(('FIELD #2,8 AS G$', ('field', 2)))
                out.append(('LSET G$="%s"' % REC_NEW, ('lset',)))
                out.append(('PUT #2,1', ('put', 2)))
                out.append(('CLOSE #2', ('close', 2)))
            elif kind == 'kill':
                out.append(('KILL "%s.DAT"' % f, ('kill', f)))
            elif kind == 'name':
                out.append(('NAME "%s.DAT" AS "%s.NEW"' % (f, f), ('name', f)))
            elif kind == 'files':
                out.append(('FILES "%s\\*.*"' % f, ('files', f)))
            elif kind == 'mkdir':
                out.append(('MKDIR "%s"' % f, ('mkdir', f)))
            else:
                raise ValueError(st)
        else:
            raise ValueError(st)
    return out


def handler_lines(cfg):
    lim = cfg['lim']
    land = cfg['landings']
    lines = [
        '%d PRINT:PRINT "#E|";ERR;"|";ERL;"|":C%%=C%%+1:I%%=1' % H0,
        '%d IF C%%>%d THEN PRINT "#LOOP|":END' % (H0 + 10, lim),
        '%d IF B%%=1 THEN B%%=0:STOP' % HB,
        '%d IF H%%=1 THEN H%%=0:ERROR 77' % (H0 + 20),
        '%d IF H%%=2 THEN H%%=0:Z%%=Q%%(99)' % (H0 + 30),
        '%d IF R%%=1 THEN RESUME' % (H0 + 40),
        '%d IF R%%=2 THEN ON ERROR GOTO 0' % (H0 + 50),
        '%d IF R%%=3 THEN RESUME 0' % (H0 + 55),
    ]
    if land:
        lines.append('%d IF R%%>=10 THEN ON R%%-9 GOTO %s' % (H0 + 60, ','.join(str(H0 + 200 + 10 * j) for j in range(len(land)))))
    lines.append('%d RESUME NEXT' % (H0 + 70))
    for j, k in enumerate(land):
        lines.append('%d RESUME %d' % (H0 + 200 + 10 * j, main_line(k)))
    # a second handler that evaluates nothing: straight to the exit line
    lines.append('%d RESUME %d' % (HX, XL))
    return lines


def program21(cfg, ops):
    """-> (sorted [(lineno, text)], {lineno: [atoms]} for modelled lines)."""
    lines = {}
    atoms = {}
    for op in ops:
        if op['op'] == 'line':
            n = main_line(op['id'])
            ex = expand(op['stmts'])
        elif op['op'] == 'sub':
            n = sub_line(op['id'])
            ex = expand(op['stmts'] + [['ret']])
        elif op['op'] == 'trapsub':
            n = T0
            ex = expand(op['stmts'] + [['ret']])
        else:
            continue
        if not ex:
            continue
        lines[n] = '%d %s' % (n, ':'.join(t for t, _ in ex))
        atoms[n] = [sem for _, sem in ex]
    ex = expand(cfg.get('exit') or []) or [('REM', ('nop',))]
    lines[XL] = '%d %s' % (XL, ':'.join(t for t, _ in ex))
    atoms[XL] = [sem for _, sem in ex]
    lines[FIN21] = '%d PRINT "#FIN|":END' % FIN21
    atoms[FIN21] = [('fin',), ('end',)]
    for l in handler_lines(cfg):
        lines[int(l.split()[0])] = l
    return sorted(lines.items()), atoms


class Halt(Exception):
    pass


class Unspec(Exception):
    pass


class Model21(object):
    """Reference model of the statement pointer, the error trap state and the fault plan."""

    def __init__(self, cfg, ops, run=None):
        self.cfg = cfg
        self.run = run
        _, self.atoms = program21(cfg, ops)
        self.linenos = sorted(self.atoms)
        self.ev = []
        self.steps = 0
        self.on_error = False
        self.in_handler = False
        self.resume_ptr = None
        self.stale_resume = False
        self.err = (0, 0)
        self.gosub = []
        self.I = 0
        self.R = 0
        self.H = 0
        self.C = 0
        self.B = 0
        # KEY(1) event trap: ON KEY GOSUB set / KEY(1) ON / KEY(1) STOP (or inside the trap routine) /
        # the key was pressed and the trap has not fired yet
        self.k_gosub = False
        self.k_enabled = False
        self.k_stopped = False
        self.k_latched = False
        self.kplan = []           # per executed wait: does the simulated user press F1 before x?
        self.conts = 0            # Break messages (each answered by a typed CONT)
        self.direct_phase = False
        self.exists = {}
        self.content = {}
        self.open = {}
        self.buf = {}
        self.fielded = None
        self.faults = {}
        self.direct = None
        self.direct_gen = 0
        for op in ops:
            if op['op'] == 'fault':
                self.faults.setdefault((op['file'], op['kind']), [0, ERRNO_CODE[op['errno']]])
                self.faults[(op['file'], op['kind'])][0] += op['r']
                self.faults[(op['file'], op['kind'])][1] = ERRNO_CODE[op['errno']]
        for f, kind in site_files(ops):
            if kind in ('openi', 'get', 'put', 'kill', 'name'):
                self.exists[f + '.DAT'] = True
                self.content[f + '.DAT'] = REC_OLD
            elif kind == 'files':
                self.exists[f] = True

    # -- pointer helpers ---------------------------------------------------

    def next_ptr(self, p):
        if p[0] == 'D':
            return ('D', p[1], p[2] + 1)
        n, i = p[1], p[2]
        if i + 1 < len(self.atoms[n]):
            return ('P', n, i + 1)
        later = [x for x in self.linenos if x > n]
        if later:
            return ('P', later[0], 0)
        return None

    def line_ptr(self, n):
        return ('P', n, 0) if n in self.atoms else None

    def erl(self, p):
        return 65535 if p[0] == 'D' else p[1]

    # -- faults --------------------------------------------------------------

    def fault(self, f, kind):
        fl = self.faults.get((f, kind))
        if fl and fl[0] > 0:
            fl[0] -= 1
            if self.run is not None:
                self.run.probe('model-device-fault')
            return fl[1]
        return None

    def remaining(self):
        return sum(v[0] for v in self.faults.values())

    # -- execution -----------------------------------------------------------

    def run_from(self, p):
        """Execute until the program/direct line returns to the prompt."""
        try:
            while p is not None:
                if p[0] == 'D':
                    if p[2] >= len(self.direct):
                        return
                    sem = self.direct[p[2]]
                else:
                    if self.k_latched:
                        # statement boundary of a running program: a pending event trap is taken here,
                        # as a GOSUB that returns to this very statement
                        if self.direct_phase:
                            raise Unspec()     # pending trap + program code run from a direct line: left out
                        if self.k_enabled and not self.k_stopped and self.k_gosub:
                            target = self.line_ptr(T0)
                            if target is None:
                                raise Unspec()
                            self.k_latched = False
                            self.k_stopped = True
                            self.gosub.append((p, self.direct_gen, True))
                            if self.run is not None:
                                self.run.probe('event-trap-taken')
                                self.run.state('trap', self.on_error, len(self.gosub), self.atoms[T0][0][0])
                            p = target
                    sem = self.atoms[p[1]][p[2]]
                self.steps += 1
                if self.steps > 900:
                    raise Unspec()
                p = self.step(p, sem)
        except Halt:
            return

    def raise_error(self, p, code):
        """A runtime error at pointer p. Returns the next pointer (handler outcome) or halts."""
        self.err = (code, self.erl(p))
        if self.run is not None:
            self.run.state('err', code if isinstance(code, tuple) or code in ERRMSG else -1, self.R, self.on_error, self.in_handler,
                           len(self.gosub) > 0, p[0], self.remaining() > 0)
        if self.on_error == 2 and not self.in_handler:
            # the bare handler: RESUME XL and nothing else
            self.steps += 1
            if self.run is not None:
                self.run.probe('resumed-by-bare-handler')
            self.leave_handler()
            return self.line_ptr(XL)
        if self.on_error and not self.in_handler:
            self.resume_ptr = p
            self.stale_resume = False
            self.in_handler = True
            return self.handler()
        was_in_handler = self.in_handler
        self.in_handler = False
        if was_in_handler:
            self.stale_resume = True
            if self.run is not None:
                self.run.probe('error-inside-handler')
        self.report(code, self.erl(p))
        raise Halt()

    def report(self, code, line):
        shown = code if isinstance(code, tuple) or code in ERRMSG else -1
        if line == 65535:
            self.ev.append(('derr', shown))
        else:
            self.ev.append(('stop', shown, line))

    def handler(self):
        """The fixed handler at H0 (see handler_lines)."""
        code, erl = self.err
        self.ev.append(('E', code, erl))
        self.C += 1
        self.I = 1
        self.steps += 4
        if self.C > self.cfg['lim']:
            self.ev.append(('LOOP',))
            self.do_end()
            raise Halt()
        if self.B == 1:
            # STOP inside the handler; the user types CONT. The handler is still a handler afterwards.
            self.B = 0
            self.do_break(HB)
            if self.run is not None:
                self.run.probe('break-cont-inside-handler')
                self.run.state('hbreak', self.H, self.R, code if isinstance(code, int) and code in ERRMSG else -1)
            if self.resume_ptr is not None and self.resume_ptr[0] == 'D':
                raise Unspec()        # the direct line to resume in has been replaced by CONT: left out
        if self.H == 1:
            self.H = 0
            return self.raise_error(('P', H0 + 20, 0), 77)
        if self.H == 2:
            self.H = 0
            return self.raise_error(('P', H0 + 30, 0), 9)
        rp = self.resume_ptr
        if self.R in (1, 3):
            self.leave_handler()
            return rp
        if self.R == 2:
            # ON ERROR GOTO 0 inside the handler: the error is reported as if untrapped
            self.on_error = False
            self.math_trapped = False
            self.in_handler = False
            self.stale_resume = True
            self.report(code, erl)
            raise Halt()
        if self.R >= 10 and self.R - 10 < len(self.cfg['landings']):
            target = self.line_ptr(main_line(self.cfg['landings'][self.R - 10]))
            if target is None:
                raise Unspec()        # RESUME to a line that does not exist: left out
            self.leave_handler()
            return target
        self.leave_handler()
        return self.next_ptr(rp)

    def do_break(self, line):
        self.ev.append(('break', line))
        self.conts += 1
        self.steps += 2
        self.direct_gen += 1          # the typed CONT replaces the direct line
        if self.conts > MAX_CONT:
            raise Unspec()            # the simulated user stops answering

    def leave_handler(self):
        self.in_handler = False
        self.resume_ptr = None
        self.stale_resume = False
        if self.run is not None:
            self.run.probe('resumed')

    def do_end(self):
        self.in_handler = False
        self.resume_ptr = None
        self.stale_resume = False
        self.open.clear()

    def step(self, p, sem):
        k = sem[0]
        nxt = self.next_ptr(p)
        if self.run is not None:
            self.run.state('st', k, self.on_error, self.in_handler, len(self.gosub) > 0, p[0])
        if k == 'mark':
            self.ev.append(('M', sem[1]))
        elif k == 'nop':
            pass
        elif k == 'fin':
            self.ev.append(('FIN',))
        elif k == 'end':
            self.do_end()
            raise Halt()
        elif k == 'err':
            n = sem[1]
            return self.raise_error(p, n if 1 <= n <= 255 else 5)
        elif k == 'bad':
            kind = sem[1]
            if kind == 'div' and not self.math_trapped:
                return nxt          # soft: message without line number, execution continues
            return self.raise_error(p, BAD[kind][1])
        elif k == 'seti':
            self.I = sem[1]
        elif k == 'fix':
            if self.I > 10:
                return self.raise_error(p, 9)
        elif k == 'sel':
            self.R = sem[1]
        elif k == 'selh':
            self.H = sem[1]
        elif k == 'selb':
            self.B = sem[1]
        elif k == 'stop':
            if p[0] == 'D':
                raise Unspec()        # STOP in a direct line: nothing to continue, left out
            # (in program code entered from a direct line CONT continues the program code; the
            # RETURN into the replaced direct line is what is left out, see 'ret')
            self.do_break(p[1])
        elif k == 'onkey':
            if self.line_ptr(T0) is None:
                return self.raise_error(p, 8)
            self.k_gosub = True
        elif k == 'key':
            if any(f[2] for f in self.gosub):
                # explicit KEY(1) ON/OFF/STOP while the trap routine has not returned: left out
                raise Unspec()
            if sem[1] == 'ON':
                self.k_enabled = True
                self.k_stopped = False
            elif sem[1] == 'STOP':
                self.k_stopped = True
            else:
                if self.k_latched:
                    raise Unspec()    # is a remembered key press forgotten by KEY(1) OFF? left out
                self.k_enabled = False
        elif k == 'kmark':
            self.ev.append(('K', sem[1]))
        elif k == 'kwait':
            # F1 is pressed only where it is documented to be an event: trap routine set, KEY(1) ON
            # executed (possibly stopped: then it is remembered), program running from RUN
            # (at most MAX_F1 times per run: a wait inside the trap routine would re-trigger it for ever)
            send = self.k_gosub and self.k_enabled and not self.direct_phase and sum(self.kplan) < MAX_F1
            self.kplan.append(bool(send))
            self.steps += 8
            if send:
                self.k_latched = True
        elif k == 'gosub':
            target = self.line_ptr(sub_line(sem[1]))
            if target is None:
                return self.raise_error(p, 8)
            self.gosub.append((nxt, self.direct_gen, False))
            return target
        elif k == 'ret':
            if not self.gosub:
                return self.raise_error(p, 3)
            back, gen_, trap = self.gosub.pop()
            if trap:
                self.k_stopped = False      # RETURN from the trap routine re-enables the trap
            if back is not None and back[0] == 'D' and gen_ != self.direct_gen:
                raise Unspec()        # return into a direct line that has been replaced: left out
            return back
        elif k == 'onerr':
            self.on_error = 2 if sem[1] == 2 else bool(sem[1])
            self.math_trapped = bool(sem[1])
            if not sem[1] and self.in_handler:
                raise Unspec()
        elif k == 'resume':
            if self.in_handler or self.stale_resume:
                raise Unspec()
            if self.on_error:
                # whether an armed trap catches error 20 is not specified: stop comparing here
                raise Unspec()
            if self.run is not None:
                self.run.probe('resume-without-error')
            return self.raise_error(p, 20)
        elif k == 'open':
            f, mode, num = sem[1], sem[2], sem[3]
            name = f + '.DAT'
            if num in self.open:
                return self.raise_error(p, 55)
            if mode == 'I' and not self.exists.get(name):
                return self.raise_error(p, 53)
            code = self.fault(f, 'open')
            if code is not None:
                return self.raise_error(p, code)
            if mode == 'O':
                self.content[name] = ''
            elif mode == 'R' and not self.exists.get(name):
                self.content[name] = ''
            self.exists[name] = True
            self.open[num] = (name, mode)
            self.buf[num] = None
        elif k == 'close':
            self.open.pop(sem[1], None)
            if self.fielded == sem[1]:
                self.fielded = None
        elif k == 'field':
            if sem[1] not in self.open:
                return self.raise_error(p, 52)
            self.fielded = sem[1]
        elif k == 'get':
            num = sem[1]
            if num not in self.open:
                # Bad file number or Bad file mode: which of the two is not specified
                return self.raise_error(p, (52, 54))
            name = self.open[num][0]
            code = self.fault(name[:-4], 'read')
            if code is not None:
                self.buf[num] = None
                return self.raise_error(p, 57)
            c = self.content.get(name)
            self.buf[num] = c if c and len(c) == 8 else None
        elif k == 'lset':
            if self.fielded is not None and self.fielded in self.open:
                self.buf[self.fielded] = REC_NEW
        elif k == 'printg':
            v = self.buf.get(self.fielded) if self.fielded is not None else None
            self.ev.append(('G', v))
        elif k == 'put':
            num = sem[1]
            if num not in self.open:
                return self.raise_error(p, (52, 54))
            name = self.open[num][0]
            code = self.fault(name[:-4], 'write')
            if code is not None:
                self.content[name] = None
                return self.raise_error(p, 57)
            self.content[name] = self.buf.get(num)
        elif k == 'kill':
            name = sem[1] + '.DAT'
            if not self.exists.get(name):
                return self.raise_error(p, 53)
            code = self.fault(sem[1], 'remove')
            if code is not None:
                return self.raise_error(p, code)
            self.exists[name] = False
        elif k == 'name':
            old, new = sem[1] + '.DAT', sem[1] + '.NEW'
            if not self.exists.get(old):
                return self.raise_error(p, 53)
            if self.exists.get(new):
                return self.raise_error(p, 58)
            code = self.fault(sem[1], 'rename')
            if code is not None:
                return self.raise_error(p, code)
            self.exists[old] = False
            self.exists[new] = True
        elif k == 'files':
            code = self.fault(sem[1], 'listdir')
            if code is not None:
                return self.raise_error(p, code)
        elif k == 'mkdir':
            code = self.fault(sem[1], 'mkdir')
            if code is not None:
                return self.raise_error(p, code)
            if self.exists.get(sem[1]):
                return self.raise_error(p, 75)
            self.exists[sem[1]] = True
        else:
            raise ValueError(sem)
        return nxt

    math_trapped = False

    # -- phases --------------------------------------------------------------

    def run_program(self):
        # RUN: clears variables, stacks and the trap, closes files
        self.on_error = False
        self.math_trapped = self.math_trapped   # the float handler's state is not reset by RUN (unobservable here: starts False)
        self.in_handler = False
        self.resume_ptr = None
        self.gosub = []
        self.I = self.R = self.H = self.C = self.B = 0
        self.k_gosub = self.k_enabled = self.k_stopped = self.k_latched = False
        self.direct_phase = False
        self.open.clear()
        first = self.linenos[0]
        self.run_from(('P', first, 0))

    def run_direct(self, stmts):
        self.direct = [sem for _, sem in expand(stmts)]
        self.direct_phase = True
        self.direct_gen += 1
        self.run_from(('D', 0, 0))


def site_files(ops):
    """(file, kind) for every device statement in the ops (stable order)."""
    seen = []

    def walk(st):
        if st[0] == 'dev':
            if (st[2], st[1]) not in seen:
                seen.append((st[2], st[1]))
        elif st[0] == 'if':
            walk(st[1])
    for op in ops:
        for st in op.get('stmts', []):
            walk(st)
    return seen


# ---------------------------------------------------------------------------
# generation

def _gen_site(rng, cx):
    """One fault site: a list of op-level statements (selector + failing statement)."""
    r = rng.random()
    pre = []
    form = rng.random()
    if form < 0.35:
        sel = 0                      # RESUME NEXT (default branch)
    elif form < 0.55:
        sel = 1 if rng.random() < 0.7 else 3      # RESUME / RESUME 0
    elif form < 0.62:
        sel = 2                      # ON ERROR GOTO 0 in the handler
    elif cx['landings']:
        sel = 10 + rng.randrange(len(cx['landings']) + (1 if rng.random() < 0.1 else 0))
    else:
        sel = 0
    pre.append(['sel', sel])
    if rng.random() < 0.08:
        pre.append(['selh', rng.choice([1, 2])])
    if rng.random() < 0.08:
        # the handler STOPs, the user CONTinues: everything after that must go on as without the Break
        pre.append(['selb', 1])
        if len(pre) == 2 and rng.random() < 0.5:
            pre.append(['selh', rng.choice([1, 2])])
    if r < 0.22:
        st = ['err', rng.choice(ERR_CODES)]
    elif r < 0.40:
        st = ['bad', rng.choice(sorted(BAD))]
    elif r < 0.52:
        pre.append(['seti', 11])
        st = ['fix']
    else:
        cx['nfile'] += 1
        kind = rng.choice(['openi', 'openi', 'openo', 'get', 'get', 'put', 'kill', 'name', 'files', 'mkdir'])
        f = {'files': 'D', 'mkdir': 'X'}.get(kind, 'F') + '%02d' % cx['nfile']
        st = ['dev', kind, f]
        if cx['faulty'] and rng.random() < 0.8:
            fk = {'openi': 'open', 'openo': 'open', 'get': rng.choice(['read', 'read', 'open']),
                  'put': rng.choice(['write', 'write', 'open']), 'kill': 'remove', 'name': 'rename',
                  'files': 'listdir', 'mkdir': 'mkdir'}[kind]
            en = 'EIO' if fk in ('read', 'write') else rng.choice(sorted(ERRNO_CODE))
            cx['faults'].append({'op': 'fault', 'file': f, 'kind': fk, 'errno': en, 'r': rng.choice([1, 1, 2, 3])})
            if sel == 0 and rng.random() < 0.6:
                pre[0] = ['sel', 1]     # retry loop around the transient fault
    if st[0] in ('err', 'bad', 'fix') or (st[0] == 'dev' and st[1] in ('kill', 'name', 'files', 'mkdir')):
        if rng.random() < 0.15:
            st = ['if', st]
    return pre, st


def gen21(rng, tier):
    thorough = tier != 'quick'
    n_lines = rng.randint(3, 9 if not thorough else 24)
    n_subs = rng.randint(0, 3)
    ids = list(range(1, n_lines + 1))
    landings = sorted(rng.sample(ids, min(len(ids), rng.randint(0, 3))))
    faulty = rng.random() < 0.6
    cfg = {'lim': rng.choice([3, 5, 8]), 'landings': landings, 'session': {}, 'world': {}, 'c21': True}
    # the exit line (before FIN): often starts with a STOP, so that the first thing after a
    # RESUME XL from the bare handler is a Break, answered by CONT
    xs = rng.choice([[['stop'], ['m', 900]], [['stop'], ['m', 900]], [['m', 900]], [['m', 900], ['stop'], ['m', 901]]])
    cfg['exit'] = xs
    cx = {'landings': landings, 'faulty': faulty, 'faults': [], 'nfile': 0}
    ops = []
    marker = [0]

    def mark():
        marker[0] += 1
        return ['m', marker[0]]

    def body(n_sites, in_sub, sub_ids):
        stmts = []
        for _ in range(n_sites):
            r = rng.random()
            if r < 0.55:
                pre, st = _gen_site(rng, cx)
                if rng.random() < 0.5:
                    stmts.append(mark())
                stmts.extend(pre)
                stmts.append(st)
                stmts.append(mark())
            elif r < 0.70 and sub_ids:
                stmts.append(['gosub', rng.choice(sub_ids)])
                stmts.append(mark())
            elif r < 0.80:
                stmts.append(['onerr', rng.choice([1] * 14 + [2] * 3 + [0] * 5)])
            elif r < 0.82:
                stmts.append(['resume', rng.choice(['', 'NEXT'] + landings[:1])])
                stmts.append(mark())
            elif r < 0.90:
                stmts.append(['ret'])
                stmts.append(mark())
            elif r < 0.93 and not in_direct[0]:
                stmts.append(['stop'])
                stmts.append(mark())
            else:
                stmts.append(mark())
        return stmts

    armed_first = rng.random() < 0.8
    sub_ids = list(range(1, n_subs + 1))
    in_direct = [False]
    for k in ids:
        st = body(rng.randint(1, 2), False, sub_ids)
        if k == 1 and armed_first:
            st = [['onerr', 1]] + st
        ops.append({'op': 'line', 'id': k, 'stmts': st})
    for k in sub_ids:
        ops.append({'op': 'sub', 'id': k, 'stmts': body(rng.randint(1, 2), True, [j for j in sub_ids if j > k])})
    if rng.random() < 0.35:
        # event arm: an ON KEY(1) GOSUB routine entered asynchronously, between two statements, when
        # the simulated user presses F1 - either while the trap is on (taken right after the wait) or
        # while it is stopped (remembered, taken after the KEY(1) ON / the RETURN that re-enables it).
        # Its statements are fault sites like any others; the first one often fails at once.
        tstm = []
        tpre = []
        if rng.random() < 0.75:
            tpre, st = _gen_site(rng, cx)
            tstm += [st, mark()]
        else:
            tstm.append(mark())
        tstm += body(rng.randint(0, 2), True, sub_ids)
        ops.append({'op': 'trapsub', 'stmts': tstm})
        setup = [['onkey'], ['key', 'ON']]
        if rng.random() < 0.1:
            setup = rng.choice([[['key', 'ON'], ['onkey']], [['onkey']], [['key', 'ON']]])
        ops[0]['stmts'][1 if armed_first else 0:0] = setup
        for _ in range(rng.choice([1, 1, 2])):
            marker[0] += 1
            if rng.random() < 0.7:
                blk = tpre + [['kwait', marker[0]], mark()]
            else:
                blk = [['key', 'STOP'], ['kwait', marker[0]], mark()] + tpre + [['key', rng.choice(['ON', 'ON', 'ON', 'OFF'])], mark()]
            # mostly early in the main program, where it is most likely to be reached
            hr = rng.random()
            if hr < 0.65:
                host = ops[min(rng.randrange(len(ids)), rng.randrange(len(ids)))]['stmts']
            elif hr < 0.92:
                host = ops[rng.randrange(len(ids) + len(sub_ids))]['stmts']
            else:
                host = tstm
            cuts = [i for i in range(len(host) + 1) if i == 0 or host[i - 1][0] not in ('sel', 'selh', 'selb', 'seti')]
            at = rng.choice(cuts)
            host[at:at] = blk
            tpre = []
    in_direct[0] = True
    if rng.random() < 0.15:
        # RESUME outside a handler with no trap armed: the last thing the program does
        ops[len(ids) - 1]['stmts'] += [['onerr', 0], ['resume', rng.choice(['', 'NEXT'] + landings[:1])], mark()]
    for _ in range(rng.randint(0, 3)):
        if rng.random() < 0.25:
            ops.append({'op': 'direct', 'stmts': [['onerr', 0], mark(), ['resume', rng.choice(['', 'NEXT'])], mark()]})
        else:
            ops.append({'op': 'direct', 'stmts': body(1, False, sub_ids)})
    if rng.random() < 0.3:
        cx['nfile'] += 1
        lo = {'op': 'load', 'file': 'P%02d' % cx['nfile']}
        ops.append(lo)
        if faulty and rng.random() < 0.8:
            lk = rng.choice(['open'] * 23 + ['read'])
            cx['faults'].append({'op': 'fault', 'file': lo['file'], 'kind': lk,
                                 'errno': 'EIO' if lk == 'read' else rng.choice(sorted(ERRNO_CODE)), 'r': rng.choice([1, 2])})
    ops = cx['faults'] + ops
    return {'machine': NAME, 'prop': 'C21', 'cfg': cfg, 'ops': ops}


def simplify21(cfg, ops):
    if cfg['landings']:
        yield dict(cfg, landings=cfg['landings'][:-1]), ops
    if cfg.get('exit'):
        for j in range(len(cfg['exit'])):
            yield dict(cfg, exit=cfg['exit'][:j] + cfg['exit'][j + 1:]), ops
    for i, op in enumerate(ops):
        if op['op'] == 'fault' and op['r'] > 1:
            yield cfg, ops[:i] + [dict(op, r=op['r'] - 1)] + ops[i + 1:]
        if op['op'] == 'fault' and op['errno'] != 'EIO':
            yield cfg, ops[:i] + [dict(op, errno='EIO')] + ops[i + 1:]
        st = op.get('stmts')
        if st and len(st) > 1:
            for j in range(len(st)):
                yield cfg, ops[:i] + [dict(op, stmts=st[:j] + st[j + 1:])] + ops[i + 1:]
        if st:
            for j, x in enumerate(st):
                if x[0] == 'if':
                    yield cfg, ops[:i] + [dict(op, stmts=st[:j] + [x[1]] + st[j + 1:])] + ops[i + 1:]


# ---------------------------------------------------------------------------
# run + judge

class Hook21(object):
    """
    The user of a C21 run: answers every Break message with CONT, and when the program announces
    a wait ("#K|n|" at the start of an output line, followed by INPUT$(1)) presses F1 - if the plan
    computed by the model says the trap is enabled there - and then x, once the engine is inside
    the INPUT$.
    """

    def __init__(self, sink, kplan):
        self.sink = sink
        self.kplan = list(kplan)
        self.scan = 0
        self.n_k = 0
        self.due = []
        self.n_break = 0

    def __call__(self, w, t):
        buf = self.sink.buf
        n = len(buf)
        if n > self.scan:
            new_k = buf.count(b'\n#K|', max(0, self.scan - 3), n)
            new_b = buf.count(b'Break in ', max(0, self.scan - 8), n)
            self.scan = n
            for _ in range(new_k):
                f1 = self.kplan[self.n_k] if self.n_k < len(self.kplan) else False
                self.n_k += 1
                self.due.append([w.poll_no + 3, f1])
            for _ in range(new_b):
                self.n_break += 1
                if self.n_break <= MAX_CONT:
                    t.script.insert(t.pos, {'t': 'line', 'text': u'CONT'})
        while self.due and w.poll_no >= self.due[0][0]:
            _, f1 = self.due.pop(0)
            if f1:
                from pcbasic.basic.base import scancode
                w.inputs.pending.append(K.sig_key(u'\0\x3b', scancode.F1, ()))
                w.faults['f1-trap-key'] += 1
            w.inputs.pending.append(K.sig_key(u'x', None, ()))


def run21(case):
    cfg = case['cfg']
    ops = case['ops']

    def body(run):
        w = run.w
        scratch = run.make_scratch()
        root = os.path.join(scratch, 'c')
        os.makedirs(root)
        fs = simfs.SimFS(w, [scratch])
        lines, _ = program21(cfg, ops)
        # host files the sites work on
        for f, kind in site_files(ops):
            if kind in ('openi', 'get', 'put', 'kill', 'name'):
                with simfs.real_open(os.path.join(root, f + '.DAT'), 'wb') as fh:
                    fh.write(REC_OLD.encode('latin-1'))
            elif kind == 'files':
                os.makedirs(os.path.join(root, f))
                with simfs.real_open(os.path.join(root, f, 'A.TXT'), 'wb') as fh:
                    fh.write(b'x')
        loads = [op for op in ops if op['op'] == 'load']
        for op in loads:
            with simfs.real_open(os.path.join(root, op['file'] + '.BAS'), 'wb') as fh:
                fh.write(b'10 PRINT "#L|%s|"\r\n\x1a' % op['file'].encode('latin-1'))
        sink = ByteSink()
        model = Model21(cfg, ops, run)
        with w:
            d = Driver(w, devices={'C:': root}, current_device='C:', output_streams=sink, **cfg.get('session', {}))
            for n, text in lines:
                r = d.exec(b(text))
                if r.errs:
                    raise K.HarnessError('program line rejected: %r -> %r' % (text, r))
            # arm the fault plan: the first r host calls of that kind on that file fail
            for op in ops:
                if op['op'] == 'fault':
                    sub = op['file'] + ('.' if op['kind'] in ('open', 'read', 'write', 'remove', 'rename') else '')
                    fs.arm(op['kind'], nth=1, err=getattr(_errno, op['errno']), path_sub=sub, repeat=op['r'])
            script = [{'t': 'line', 'text': u'RUN'}]
            model.run_program_safe()
            typed = 1
            for op in ops:
                if op['op'] == 'direct':
                    ex = expand(op['stmts'])
                    if ex:
                        script.append({'t': 'line', 'text': u':'.join(t for t, _ in ex)})
                        model.run_direct_safe(op['stmts'])
                        typed += 1
            for op in loads[:1]:
                n_fail = 0
                for lk in ('open', 'read'):
                    # each attempt fails at the first faulted host call: first the opens, then the reads
                    fl = model.faults.get((op['file'], lk))
                    while fl and fl[0] > 0:
                        script.append({'t': 'line', 'text': u'LOAD "%s"' % op['file']})
                        model.emit(('derr', 57 if lk == 'read' else fl[1]))
                        fl[0] -= 1
                        n_fail += 1
                script.append({'t': 'line', 'text': u'LOAD "%s"' % op['file']})
                script.append({'t': 'line', 'text': u'RUN'})
                model.emit(('L', op['file']))
                typed += n_fail + 2
                run.probe('load-probe')
            p0 = w.poll_no
            typed += model.conts
            t = interact(d, script, extra=Hook21(sink, model.kplan), poll_cap=120000, stall_polls=6000)
            polls = w.poll_no - p0
            run.res['stats']['stalled'] += t.stalled
            d.close()
        judge21(run, cfg, ops, model, sink.getvalue(), polls, typed, t.stalled, fs)
    return execute(case, body)


def _m21_emit(self, e):
    if not self.unspec:
        self.ev.append(e)


def _m21_safe(fn):
    def wrapped(self, *a):
        if self.unspec:
            return
        try:
            fn(self, *a)
        except Unspec:
            self.unspec = True
            self.ev.append(('UNSPEC',))
    return wrapped


Model21.unspec = False
Model21.emit = _m21_emit
Model21.run_program_safe = _m21_safe(Model21.run_program)
Model21.run_direct_safe = _m21_safe(Model21.run_direct)


def _norm_trace(ev):
    """Engine events in the model's vocabulary."""
    out = []
    for e in ev:
        if e[0] == '#':
            tag, f, complete = e[1], e[2], e[3]
            try:
                if tag in ('M', 'K') and complete:
                    out.append((tag, int(f[0])))
                elif tag == 'E' and complete:
                    out.append(('E', int(f[0]), int(f[1])))
                elif tag == 'G':
                    out.append(('G', f[0] if complete and f else None))
                elif tag == 'L' and complete:
                    out.append(('L', f[0]))
                elif tag in ('LOOP', 'FIN'):
                    out.append((tag,))
                else:
                    out.append(('?', tag, tuple(f)))
            except (ValueError, IndexError):
                out.append(('?', tag, tuple(f)))
        elif e[0] in ('stop', 'derr'):
            out.append(e)
        elif e[0] == 'break':
            out.append(('break', e[1]))
    return out


def judge21(run, cfg, ops, model, out, polls, typed, stalled, fs):
    got = _norm_trace(parse_trace(out))
    exp = model.ev
    listing = '\n'.join(t for _, t in program21(cfg, ops)[0])
    directs = [':'.join(t for t, _ in expand(op['stmts'])) for op in ops if op['op'] == 'direct']
    faults = [op for op in ops if op['op'] == 'fault']
    n = 0
    for i, e in enumerate(exp):
        if e[0] == 'UNSPEC':
            run.probe('unspecified-corner-reached')
            return
        if i >= len(got):
            run.violate('C21', 'trace-short:expected-%s%s' % (_evclass(e), _history_class(exp, i)),
                        'engine trace ends after %d events; model expects %r next\nmodel  %r\nengine %r\nprogram:\n%s\ndirect: %r\n'
                        'faults: %r\n%s' % (i, e, exp, got, listing, directs, faults, _tail(out)))
            return
        g = got[i]
        if e[0] == 'G' and g[0] == 'G' and (e[1] is None or e[1] == g[1]):
            continue
        if e[0] in ('E', 'stop', 'derr') and isinstance(e[1], tuple) and g[0] == e[0] and g[1] in e[1] and g[2:] == e[2:]:
            continue
        if e != g:
            hist = _history_class(exp, i)
            if i and exp[i - 1][0] == 'break' and g == exp[i - 1]:
                hist += ':cont-repeated-the-stop'
            run.violate('C21', 'trace-mismatch:model-%s:engine-%s%s' % (_evclass(e), _evclass(g), hist),
                        'event %d: model %r, engine %r\nmodel  %r\nengine %r\nprogram:\n%s\ndirect: %r\nfaults: %r\n%s' % (
                            i, e, g, exp, got, listing, directs, faults, _tail(out)))
            return
        n += 1
    if len(got) > len(exp):
        run.violate('C21', 'trace-long:extra-%s%s' % (_evclass(got[len(exp)]), _history_class(exp, len(exp))),
                    'engine produced %r after the model finished\nmodel  %r\nengine %r\nprogram:\n%s\ndirect: %r\nfaults: %r' % (
                        got[len(exp)], exp, got, listing, directs, faults))
        return
    # bounded liveness: once the faults stop the program finishes within the predicted number of
    # statements (one poll per statement boundary; generous constant for the typed lines)
    bound = 6 * model.steps + 120 * typed + 400 + 40 * len(model.kplan)
    if polls > bound or stalled:
        run.violate('C21', 'liveness:polls-exceed-model-bound',
                    'engine used %d polls (stalled %d), model executed %d statements (bound %d)\nprogram:\n%s' % (
                        polls, stalled, model.steps, bound, listing))
    if fs.plan and not model.unspec:
        left = [(f['kind'], f['path_sub'], f['repeat']) for f in fs.plan]
        exp_left = sorted((k[1], k[0], v[0]) for k, v in model.faults.items() if v[0] > 0)
        if len(left) != len(exp_left):
            run.violate('C21', 'fault-plan-accounting',
                        'faults still armed in the simulator %r, in the model %r\nprogram:\n%s' % (left, exp_left, listing))


def _history_class(exp, i):
    """What kind of history the agreed part of the trace ends in (part of the signature)."""
    last_e = None
    for j in range(i - 1, -1, -1):
        if exp[j][0] == 'E':
            last_e = j
            break
    if last_e is None:
        return ''
    if any(x == ('break', HB) for x in exp[last_e:i]):
        return ':after-break-and-cont-inside-handler'
    if isinstance(exp[last_e][2], int) and T0 <= exp[last_e][2] < H0:
        return ':after-error-in-event-trap-routine'
    return ''


def _evclass(e):
    if e[0] in ('stop', 'derr'):
        return '%s%s' % (e[0], e[1] if not isinstance(e[1], tuple) else '/'.join(map(str, e[1])))
    if e[0] == 'E':
        return 'E%s@%s' % (e[1] if not isinstance(e[1], tuple) else '/'.join(map(str, e[1])), 'direct' if e[2] == 65535 else ('handler' if e[2] >= H0 else ('trapsub' if e[2] >= T0 else ('sub' if e[2] >= SUB0 else 'main'))))
    return str(e[0])
