"""
sim.simfs - the host file system seam (S6).

Process-wide wrappers on builtins.open / io.open / os.* that
  (a) pass through untouched when no World with an `fs` is active,
  (b) log every call with its resolved path (for the containment monitor, C27),
  (c) inject OSError(errno) at planned call counts for paths inside the watched roots, and
      return file objects whose read/write/seek/flush/close/truncate are fault points too.
An audit hook independently records open/listdir/mkdir/... events so that an access that
bypasses the wrappers is still seen.
"""

import io
import os
import sys
import errno
import builtins
import collections

from . import kernel as K

_real = {}
_installed = False
_audit_installed = False

OS_FUNCS_PATH1 = ['listdir', 'mkdir', 'rmdir', 'remove', 'unlink', 'stat', 'lstat', 'scandir', 'chdir',
                  'truncate', 'statvfs', 'access', 'makedirs', 'removedirs', 'chmod', 'utime', 'readlink']
OS_FUNCS_PATH2 = ['rename', 'replace', 'link', 'symlink']

MUTATING = ('mkdir', 'rmdir', 'remove', 'unlink', 'truncate', 'makedirs', 'removedirs', 'chmod', 'utime', 'chdir')

AUDIT_EVENTS = {
    'open': 0, 'os.listdir': 0, 'os.scandir': 0, 'os.mkdir': 0, 'os.rmdir': 0, 'os.remove': 0,
    'os.rename': (0, 1), 'os.truncate': 0, 'os.chdir': 0, 'os.chmod': 0, 'os.link': (0, 1),
    'os.symlink': (0, 1), 'shutil.copyfile': (0, 1), 'shutil.move': (0, 1), 'shutil.rmtree': 0,
    'shutil.copytree': (0, 1), 'os.utime': 0, 'glob.glob': 0,
}


_busy = [False]


def _fs():
    w = K.WORLD
    if w is None or _busy[0]:
        return None
    return getattr(w, 'fs', None)


def _realpath(p):
    # os.path.realpath calls the (wrapped) os.lstat/os.readlink: guard against re-entry
    old = _busy[0]
    _busy[0] = True
    try:
        return os.path.realpath(p)
    finally:
        _busy[0] = old


def _pathstr(p):
    if isinstance(p, bytes):
        return os.fsdecode(p)
    if isinstance(p, int):
        return None
    try:
        return os.fspath(p) if not isinstance(p, str) else p
    except TypeError:
        return None


class FaultyFile(object):
    """Proxy for a real file object whose methods are fault points."""

    def __init__(self, fs, f, path, mode):
        self.__dict__['_fs'] = fs
        self.__dict__['_f'] = f
        self.__dict__['_path'] = path
        self.__dict__['_mode'] = mode

    def __getattr__(self, name):
        return getattr(self._f, name)

    def __setattr__(self, name, value):
        setattr(self._f, name, value)

    def _pt(self, kind, data=None):
        return self._fs.fault_point(kind, self._path, data)

    def read(self, *a):
        if a and a[0] == 0:
            # a zero-length read never reaches the host
            return self._f.read(*a)
        act = self._pt('read')
        if act and act.get('short') is not None:
            data = self._f.read(*a)
            return data[:act['short']]
        return self._f.read(*a)

    def readline(self, *a):
        self._pt('read')
        return self._f.readline(*a)

    def readinto(self, bb):
        self._pt('read')
        return self._f.readinto(bb)

    def write(self, s):
        if not isinstance(s, (bytes, bytearray, memoryview)) or not len(s):
            return self._f.write(s)
        act = self._pt('write', s)
        if act and act.get('torn') is not None:
            # torn write: a prefix reaches the medium, then the error
            n = min(len(s), act['torn'])
            self._f.write(s[:n])
            try:
                self._f.flush()
            except Exception:
                pass
            raise OSError(act['errno'], os.strerror(act['errno']))
        return self._f.write(s)

    def seek(self, *a):
        self._pt('seek')
        return self._f.seek(*a)

    def flush(self):
        self._pt('flush')
        return self._f.flush()

    def truncate(self, *a):
        self._pt('truncate')
        return self._f.truncate(*a)

    def close(self):
        try:
            self._pt('close')
        except OSError:
            # the real descriptor is released even when close reports an error
            try:
                self._f.close()
            except Exception:
                pass
            raise
        return self._f.close()

    def __enter__(self):
        return self

    def __exit__(self, *a):
        self.close()

    def __iter__(self):
        return iter(self._f)

    def __reduce_ex__(self, proto):
        # pickle like the underlying file object (the engine registers picklers for those)
        import copyreg
        return copyreg.dispatch_table[type(self._f)](self._f)


class SimFS(object):
    """Per-run file system monitor and fault plan. Attach as world.fs."""

    def __init__(self, world, roots, guard_root=None):
        self.w = world
        self.roots = [os.path.realpath(r) for r in roots]
        # safety net: mutating host calls that resolve outside guard_root are refused with EACCES
        # (after being recorded), so that an engine that escapes its mounts cannot touch real files
        self.guard_root = os.path.realpath(guard_root) if guard_root else None
        self.refused = 0
        self.counts = collections.Counter()
        self.plan = []            # armed faults
        self.calls = []           # (kind, resolved path) while monitoring
        self.audit = []           # (event, resolved path) while monitoring
        self.monitor = False      # set True during a BASIC statement
        self.fired = []
        world.fs = self

    def inside(self, path):
        if path is None:
            return False
        try:
            rp = _realpath(path)
        except Exception:
            return False
        for r in self.roots:
            if rp == r or rp.startswith(r + os.sep):
                return True
        return False

    def arm(self, kind, nth=1, err=errno.EIO, path_sub=None, repeat=1, torn=None, short=None):
        """Make the nth next `kind` call (on a path containing path_sub) fail `repeat` times."""
        self.plan.append({
            'kind': kind, 'nth': nth, 'errno': err, 'path_sub': path_sub, 'repeat': repeat,
            'torn': torn, 'short': short, 'seen': 0,
        })

    def disarm(self):
        n = len(self.plan)
        self.plan = []
        return n

    def fault_point(self, kind, path, data=None):
        """Called by wrappers for in-root paths. Raises OSError if a planned fault fires."""
        self.counts[kind] += 1
        if not self.plan:
            return None
        for f in self.plan:
            if f['kind'] != kind and f['kind'] != '*':
                continue
            if f['path_sub'] and (path is None or f['path_sub'] not in path):
                continue
            f['seen'] += 1
            if f['seen'] >= f['nth']:
                f['repeat'] -= 1
                if f['repeat'] <= 0:
                    self.plan.remove(f)
                name = errno.errorcode.get(f['errno'], str(f['errno']))
                self.w.faults['io:%s:%s' % (kind, name)] += 1
                self.w.log.add('fault', kind, name, os.path.basename(path or ''))
                self.fired.append((kind, f['errno'], path))
                if f['short'] is not None:
                    return {'short': f['short']}
                if f['torn'] is not None:
                    return {'torn': f['torn'], 'errno': f['errno']}
                raise OSError(f['errno'], os.strerror(f['errno']), path)
        return None

    def refuse(self, path):
        """True if a mutating call on path must be refused (outside the guard root)."""
        if self.guard_root is None or path is None:
            return False
        try:
            rp = _realpath(path)
        except Exception:
            return False
        if rp == self.guard_root or rp.startswith(self.guard_root + os.sep) or rp == os.devnull:
            return False
        # pcbasic.config keeps its own user directories on tmpfs (see sim.kernel)
        if rp == K._HOME or rp.startswith(K._HOME + os.sep):
            return False
        self.refused += 1
        self.w.stats['guard_refused_outside_scratch'] += 1
        return True

    def note(self, kind, path):
        if self.monitor:
            try:
                rp = _realpath(path) if path is not None else None
            except Exception:
                rp = path
            self.calls.append((kind, rp))


def _wrap_open(real_open):
    def sim_open(file, mode='r', *a, **kw):
        fs = _fs()
        if fs is None:
            return real_open(file, mode, *a, **kw)
        p = _pathstr(file)
        fs.note('open:' + str(mode), p)
        if isinstance(mode, str) and set(mode) & set('wax+') and fs.refuse(p):
            raise PermissionError(errno.EACCES, 'refused by verification sandbox', p)
        if p is None or not fs.inside(p):
            return real_open(file, mode, *a, **kw)
        fs.fault_point('open', p)
        f = real_open(file, mode, *a, **kw)
        return FaultyFile(fs, f, p, mode)
    return sim_open


def _wrap1(name, real):
    def sim_fn(path='.', *a, **kw):
        fs = _fs()
        if fs is None:
            return real(path, *a, **kw)
        p = _pathstr(path)
        if name not in ('stat', 'lstat', 'access', 'readlink'):
            fs.note(name, p)
        elif fs.monitor:
            fs.note(name, p)
        if name in MUTATING and fs.refuse(p):
            raise PermissionError(errno.EACCES, 'refused by verification sandbox', p)
        if p is not None and fs.inside(p):
            fs.fault_point(name, p)
            if name == 'statvfs':
                # how much room the host has left is the environment's business, and other jobs change it
                # while we run: the simulator decides what the engine sees
                vals = list(real(path, *a, **kw))
                vals[3] = vals[4] = max(0, int(getattr(fs, 'free_bytes', 1 << 30))) // (vals[1] or 4096)
                return os.statvfs_result(vals)
        return real(path, *a, **kw)
    sim_fn.__name__ = name
    return sim_fn


def _wrap2(name, real):
    def sim_fn(src, dst, *a, **kw):
        fs = _fs()
        if fs is None:
            return real(src, dst, *a, **kw)
        ps, pd = _pathstr(src), _pathstr(dst)
        fs.note(name, ps)
        fs.note(name, pd)
        if fs.refuse(ps) or fs.refuse(pd):
            raise PermissionError(errno.EACCES, 'refused by verification sandbox', ps)
        if (ps is not None and fs.inside(ps)) or (pd is not None and fs.inside(pd)):
            fs.fault_point(name, ps)
        return real(src, dst, *a, **kw)
    sim_fn.__name__ = name
    return sim_fn


def _audit(event, args):
    fs = _fs()
    if fs is None or not fs.monitor:
        return
    idx = AUDIT_EVENTS.get(event)
    if idx is None:
        return
    if not isinstance(idx, tuple):
        idx = (idx,)
    for i in idx:
        try:
            p = _pathstr(args[i])
        except Exception:
            p = None
        if p is None:
            continue
        try:
            rp = _realpath(p)
        except Exception:
            rp = p
        fs.audit.append((event, rp))


def install_fs_seams():
    """Install the wrappers (idempotent; worker processes only)."""
    global _installed, _audit_installed
    if _installed:
        return
    _installed = True
    _real['open'] = builtins.open
    _real['io.open'] = io.open
    sim_open = _wrap_open(builtins.open)
    builtins.open = sim_open
    io.open = sim_open
    for name in OS_FUNCS_PATH1:
        if hasattr(os, name):
            _real[name] = getattr(os, name)
            setattr(os, name, _wrap1(name, _real[name]))
    for name in OS_FUNCS_PATH2:
        if hasattr(os, name):
            _real[name] = getattr(os, name)
            setattr(os, name, _wrap2(name, _real[name]))
    if not _audit_installed:
        _audit_installed = True
        sys.addaudithook(_audit)


def real_open(*a, **kw):
    return _real.get('open', builtins.open)(*a, **kw)
