"""
sim.kernel - the simulated world: clock, sleep, input/video/audio queues, event log.

Seams taken here (DESIGN.md section 1):
  S1  datetime.datetime / datetime.date  -> SimDateTime / SimDate reading the simulated clock
  S2  time.sleep / time.time / time.monotonic / time.perf_counter -> simulated
  S3  input queue   (World.inputs; a poll of the queue is the pre-emption point)
  S4  video queue   (World.video; recording, optional reference consumer)
  S5  audio queue   (World.audio; recording)
  S8  `set` in pcbasic.basic.basicevents -> OrderedSet with per-run iteration order
  S9  random.seed per run, os.environ snapshot/restore

All patches are process-wide but pass through to the real functions whenever no World is
active, so the pool machinery of the parent process is never affected.
"""

import os
import sys
import time
import heapq
import random
import hashlib
import datetime
import collections
import queue as _queue

REPO = os.environ.get('VERIF_REPO', '/repo')
# pcbasic.config creates its user config/state directories on first use: keep them on tmpfs,
# away from the real home directory (read once, when pcbasic.compat is first imported)
_HOME = '/dev/shm/pcbverif-home-%d' % os.getuid() if os.path.isdir('/dev/shm') else '/tmp/pcbverif-home-%d' % os.getuid()
os.environ.setdefault('XDG_CONFIG_HOME', os.path.join(_HOME, 'config'))
os.environ.setdefault('XDG_DATA_HOME', os.path.join(_HOME, 'data'))
if REPO not in sys.path:
    sys.path.insert(0, REPO)

# the real things, kept privately for wall-clock budgets and pass-through
real_sleep = time.sleep
real_time = time.time
real_monotonic = time.monotonic
real_perf_counter = time.perf_counter
RealDateTime = datetime.datetime
RealDate = datetime.date

# current world; None => seams are transparent
WORLD = None

# default simulated epoch start: 2024-03-10 10:00:00 (a Sunday, no special date nearby)
DEFAULT_START_US = int((RealDateTime(2024, 3, 10, 10, 0, 0) - RealDateTime(1970, 1, 1)).total_seconds()) * 1000000


class SimAbort(BaseException):
    """A run cap (polls, simulated time) was reached. BaseException so the engine cannot catch it."""


class HarnessError(Exception):
    """Something is wrong with the harness itself - never a property verdict."""


###############################################################################
# S1: datetime

class SimDateTime(RealDateTime):
    """datetime whose now() reads the simulated clock."""

    @classmethod
    def now(cls, tz=None):
        w = WORLD
        if w is None:
            return RealDateTime.now(tz)
        w.stats['clock_reads'] += 1
        return cls(1970, 1, 1) + datetime.timedelta(microseconds=w.clock_us)

    @classmethod
    def utcnow(cls):
        return cls.now()

    @classmethod
    def today(cls):
        return cls.now()


class SimDate(RealDate):
    """date whose today() reads the simulated clock."""

    @classmethod
    def today(cls):
        w = WORLD
        if w is None:
            return RealDate.today()
        d = RealDateTime(1970, 1, 1) + datetime.timedelta(microseconds=w.clock_us)
        return cls(d.year, d.month, d.day)


###############################################################################
# S2: time

def sim_sleep(secs):
    w = WORLD
    if w is None:
        return real_sleep(secs)
    w.sleep(secs)


def sim_time():
    w = WORLD
    if w is None:
        return real_time()
    return w.clock_us / 1e6


def sim_monotonic():
    w = WORLD
    if w is None:
        return real_monotonic()
    return w.clock_us / 1e6


def sim_perf_counter():
    w = WORLD
    if w is None:
        return real_perf_counter()
    return w.clock_us / 1e6


###############################################################################
# S8: ordered set

class OrderedSet(object):
    """
    Insertion-ordered set; iteration order is forward, reverse or rotated according to the
    active World's 'trap_order' configuration, so the dispatch order of simultaneously
    pending traps is a scheduled choice and not an accident of object addresses.
    """

    def __init__(self, iterable=()):
        self._d = dict.fromkeys(iterable)

    def add(self, x):
        self._d[x] = None

    def discard(self, x):
        self._d.pop(x, None)

    def remove(self, x):
        del self._d[x]

    def clear(self):
        self._d.clear()

    def update(self, it):
        for x in it:
            self._d[x] = None

    def __contains__(self, x):
        return x in self._d

    def __len__(self):
        return len(self._d)

    def __bool__(self):
        return bool(self._d)

    def __iter__(self):
        items = list(self._d)
        w = WORLD
        mode = w.cfg.get('trap_order', 0) if w is not None else 0
        if mode == 1:
            items.reverse()
        elif mode >= 2 and items:
            k = mode % len(items)
            items = items[k:] + items[:k]
        return iter(items)

    def __or__(self, other):
        return OrderedSet(list(self) + [x for x in other if x not in self._d])

    def __repr__(self):
        return 'OrderedSet(%r)' % (list(self._d),)


_installed = False


def install_seams():
    """Install the process-wide seams (idempotent). Call in worker processes only."""
    global _installed
    if _installed:
        return
    _installed = True
    time.sleep = sim_sleep
    time.time = sim_time
    time.monotonic = sim_monotonic
    time.perf_counter = sim_perf_counter
    datetime.datetime = SimDateTime
    datetime.date = SimDate
    import pcbasic.basic.basicevents as be
    be.set = OrderedSet
    # anything that did `from time import sleep` or `from datetime import datetime` in the
    # engine would have bypassed the module-attribute swap: rebind those names too
    import pcbasic
    for name, mod in list(sys.modules.items()):
        if not name.startswith('pcbasic') or mod is None:
            continue
        d = getattr(mod, '__dict__', {})
        for attr, real, sim in (
                ('sleep', real_sleep, sim_sleep), ('datetime', RealDateTime, SimDateTime),
                ('date', RealDate, SimDate), ('monotonic', real_monotonic, sim_monotonic),
                ('perf_counter', real_perf_counter, sim_perf_counter),
            ):
            if d.get(attr) is real:
                d[attr] = sim
        if d.get('time') is real_time:
            d['time'] = sim_time


###############################################################################
# event log

class EventLog(object):
    """Append-only log of primitive tuples; digest is what determinism tests compare."""

    def __init__(self, keep=True):
        self._h = hashlib.sha256()
        self.n = 0
        self.keep = keep
        self.entries = []

    def add(self, *entry):
        s = repr(entry)
        self._h.update(s.encode('utf-8', 'backslashreplace'))
        self._h.update(b'\n')
        self.n += 1
        if self.keep and len(self.entries) < 20000:
            self.entries.append(entry)

    def digest(self):
        return self._h.hexdigest()[:24]


###############################################################################
# queues

class SimInputQueue(object):
    """The engine's input queue. Every get() on an empty queue ends a poll cycle."""

    def __init__(self, world):
        self._w = world
        self.pending = collections.deque()
        self._fresh = True

    def get(self, block=False, timeout=None):
        w = self._w
        if self._fresh:
            self._fresh = False
            w.begin_poll()
        if self.pending:
            sig = self.pending.popleft()
            w.log.add('in', w.poll_no, sig.event_type, _plain(sig.params))
            w.stats['signals_in'] += 1
            return sig
        self._fresh = True
        raise _queue.Empty

    def put(self, item, block=False, timeout=None):
        self.pending.append(item)

    put_nowait = put

    def task_done(self):
        pass

    def join(self):
        pass

    def qsize(self):
        return len(self.pending)

    def empty(self):
        return not self.pending

    def full(self):
        return False


class SimVideoQueue(object):
    """Recording video queue with an optional consumer and a configurable lag."""

    def __init__(self, world):
        self._w = world
        self.backlog = collections.deque()
        self.consumer = None
        self.count = 0
        self.record = None   # list to append (type, params) to, if set
        # lag: 0 = consume immediately; k>0 = consume when the harness calls drain()
        # or when the engine sleeps for a tick (a consumer that progresses given time)
        self.lag = 0

    def put(self, item, block=False, timeout=None):
        self.count += 1
        if self.record is not None:
            self.record.append(item)
        if self.consumer is None:
            return
        if self.lag == 0:
            self.consumer.apply(item)
        else:
            self.backlog.append(item)
            if len(self.backlog) > self._w.stats.get('max_video_backlog', 0):
                self._w.stats['max_video_backlog'] = len(self.backlog)

    put_nowait = put

    def drain(self, limit=None):
        n = 0
        while self.backlog and (limit is None or n < limit):
            self.consumer.apply(self.backlog.popleft())
            n += 1
        return n

    def get(self, block=False, timeout=None):
        raise _queue.Empty

    def task_done(self):
        pass

    def join(self):
        pass

    def qsize(self):
        return len(self.backlog)

    def empty(self):
        return not self.backlog

    def full(self):
        return False


class SimAudioQueue(object):
    """Recording audio queue."""

    def __init__(self, world):
        self._w = world
        self.signals = []

    def put(self, item, block=False, timeout=None):
        self.signals.append((self._w.clock_us, item.event_type, item.params))
        self._w.log.add('audio', item.event_type, _plain(item.params))

    put_nowait = put

    def get(self, block=False, timeout=None):
        raise _queue.Empty

    def task_done(self):
        pass

    def join(self):
        pass

    def qsize(self):
        return 0

    def empty(self):
        return True

    def full(self):
        return False


def _plain(x):
    """Reduce signal params to printable primitives (no object ids)."""
    if isinstance(x, (bytes, str, int, float, bool)) or x is None:
        return x
    if isinstance(x, (list, tuple)):
        return tuple(_plain(i) for i in x)
    if isinstance(x, dict):
        return tuple(sorted((str(k), _plain(v)) for k, v in x.items()))
    return type(x).__name__


###############################################################################
# the world

class World(object):
    """One simulated run's environment. Also acts as the interface object for Session.attach."""

    def __init__(self, cfg=None, keep_log=True):
        self.cfg = cfg or {}
        self.clock_us = int(self.cfg.get('start_us', DEFAULT_START_US))
        self.start_us = self.clock_us
        # simulated time that passed by sleeping (clock jumps excluded)
        self.slept_us = 0
        self.tick_sleeps = 0
        self.sleep0_us = int(self.cfg.get('sleep0_us', 50))
        self.poll_no = 0
        self.poll_cap = int(self.cfg.get('poll_cap', 400000))
        self.sim_cap_us = int(self.cfg.get('sim_cap_s', 36000)) * 1000000
        self.stats = collections.Counter()
        self.probes = collections.Counter()
        self.faults = collections.Counter()
        self.log = EventLog(keep_log)
        self.inputs = SimInputQueue(self)
        self.video = SimVideoQueue(self)
        self.audio = SimAudioQueue(self)
        # scheduled external events
        self._timed = []    # heap of (due_us, seq, signal-or-callable)
        self._at_poll = {}  # poll_no -> [signal-or-callable]
        self._seq = 0
        # hook called at the start of every poll: hook(world)
        self.poll_hook = None
        # op-relative poll base (set by the driver at the start of each op)
        self.op_poll_base = 0
        self.op_poll_cap = None
        # file system seam (sim.simfs.SimFS) if the run uses one
        self.fs = None

    # interface protocol -----------------------------------------------------

    def get_queues(self):
        return self.inputs, self.video, self.audio

    # activation -------------------------------------------------------------

    def __enter__(self):
        global WORLD
        if WORLD is not None:
            raise HarnessError('nested worlds')
        if not _installed:
            raise HarnessError('seams not installed')
        self._environ = dict(os.environ)
        random.seed(self.cfg.get('pyrandom_seed', 12345))
        WORLD = self
        return self

    def __exit__(self, *exc):
        global WORLD
        WORLD = None
        os.environ.clear()
        os.environ.update(self._environ)
        return False

    # time -------------------------------------------------------------------

    def sleep(self, secs):
        if secs and secs > 0:
            self.clock_us += int(round(secs * 1e6))
            self.slept_us += int(round(secs * 1e6))
            self.stats['sleeps'] += 1
            # positive sleeps since the user last reset this (a poll preceded by a tick sleep
            # comes from a wait inside a blocking statement, not from the statement loop)
            self.tick_sleeps += 1
            # a consumer that is given time makes progress
            if self.video.backlog:
                self.video.drain()
        else:
            self.clock_us += self.sleep0_us
            self.slept_us += self.sleep0_us
        if self.slept_us > self.sim_cap_us:
            raise SimAbort('simulated-time cap')

    def jump_clock(self, delta_s):
        """Clock step (NTP, suspend-to-RAM)."""
        self.clock_us += int(round(delta_s * 1e6))
        self.faults['clock-jump'] += 1
        self.log.add('clock-jump', delta_s)

    @property
    def now_s(self):
        return self.clock_us / 1e6

    # scheduling -------------------------------------------------------------

    def at_time(self, delay_s, what):
        self._seq += 1
        heapq.heappush(self._timed, (self.clock_us + int(round(delay_s * 1e6)), self._seq, what))

    def at_poll(self, polls_from_now, what):
        self._at_poll.setdefault(self.poll_no + max(1, int(polls_from_now)), []).append(what)

    def push(self, what):
        """Deliver at the very next poll."""
        self._fire(what)

    def _fire(self, what):
        if callable(what):
            what(self)
        else:
            self.inputs.pending.append(what)

    def begin_poll(self):
        self.poll_no += 1
        if self.poll_no > self.poll_cap:
            raise SimAbort('poll cap')
        if self.op_poll_cap is not None and self.poll_no - self.op_poll_base > self.op_poll_cap:
            raise SimAbort('op poll cap')
        due = self._at_poll.pop(self.poll_no, None)
        if due:
            for what in due:
                self._fire(what)
        while self._timed and self._timed[0][0] <= self.clock_us:
            _, _, what = heapq.heappop(self._timed)
            self._fire(what)
        if self.poll_hook is not None:
            self.poll_hook(self)

    @property
    def nothing_scheduled(self):
        return not self._timed and not self._at_poll and not self.inputs.pending

    def next_timed_delay_s(self):
        if not self._timed:
            return None
        return max(0, self._timed[0][0] - self.clock_us) / 1e6


###############################################################################
# signal helpers

def _signals():
    from pcbasic.basic.base import signals
    return signals


def _scancode():
    from pcbasic.basic.base import scancode
    return scancode


def sig_key(char, scan=None, mods=()):
    """Key-down signal. char is a unicode string (e-ASCII for special keys)."""
    s = _signals()
    return s.Event(s.KEYB_DOWN, (char, scan, list(mods)))


def sig_keyup(scan):
    s = _signals()
    return s.Event(s.KEYB_UP, (scan,))


def sig_break():
    sc = _scancode()
    return sig_key(u'', sc.BREAK, [sc.CTRL])


def sig_pause():
    sc = _scancode()
    return sig_key(u'', sc.BREAK, [])


def sig_quit():
    s = _signals()
    return s.Event(s.QUIT)


def sig_stream(text):
    s = _signals()
    return s.Event(s.STREAM_CHAR, (text,))


def sig_stream_closed():
    s = _signals()
    return s.Event(s.STREAM_CLOSED)


def sig_pen_down(x, y):
    s = _signals()
    return s.Event(s.PEN_DOWN, (x, y))


def sig_pen_up():
    s = _signals()
    return s.Event(s.PEN_UP)


def sig_pen_moved(x, y):
    s = _signals()
    return s.Event(s.PEN_MOVED, (x, y))


def sig_stick_down(joy, button):
    s = _signals()
    return s.Event(s.STICK_DOWN, (joy, button))


def sig_stick_up(joy, button):
    s = _signals()
    return s.Event(s.STICK_UP, (joy, button))


def sig_stick_moved(joy, x, y):
    s = _signals()
    return s.Event(s.STICK_MOVED, (joy, x, y))


def derive_seed(prop, verif_seed, i):
    h = hashlib.sha256(('%s:%s:%s' % (prop, verif_seed, i)).encode()).hexdigest()
    return int(h[:12], 16)
