"""Deterministic simulation harness for PC-BASIC (see /verif/DESIGN.md)."""
