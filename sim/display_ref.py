"""
sim.display_ref - reference video consumer (the "display" party of property C35).

What the shipped front ends do with each video signal, on a plain 2-D array:

* signal dispatch is the repo's own `pcbasic.interface.video.VideoPlugin._drain_queue`
  (real code: handler table, QUIT handling, unknown-signal tolerance);
* the pixel canvas follows `interface/video_sdl2.py` (set_mode / clear_rows / scroll / update);
* the text grid follows the text front ends (`video_curses.py`, `video_ansi.py`):
  set_mode and clear_rows blank rows, scroll moves rows and blanks the vacated one,
  update overwrites cells with the unicode matrix carried by the signal;
* cursor, palette and border signals are folded into plain attributes.

The canvas is a list of bytearrays and never uses the engine's ByteMatrix for its own state, so
a defect in ByteMatrix cannot cancel out between the two parties.  The sprite carried by an
`update` signal is read through its public `height`/`width`/`to_bytes()` only.

Hook-up: `world.video.consumer = RefDisplay()`; `world.video.lag` 0 applies every signal at
once, >0 leaves a backlog that is drained by `world.video.drain()` or when the engine sleeps.
"""

from . import kernel as K  # noqa: F401  (puts the repo on sys.path)

from pcbasic.interface.video import VideoPlugin


class _OneShotQueue(object):
    """Minimal queue the VideoPlugin dispatcher can drain."""

    def __init__(self):
        self._items = []

    def put(self, item):
        self._items.append(item)

    def get(self, block=False):
        from pcbasic.compat import queue
        if not self._items:
            raise queue.Empty
        return self._items.pop(0)

    def task_done(self):
        pass


class RefDisplay(VideoPlugin):
    """Reference display: a fold over the video signal history."""

    def __init__(self):
        self._q = _OneShotQueue()
        VideoPlugin.__init__(self, None, self._q)
        # geometry
        self.mode = None            # (canvas_height, canvas_width, text_height, text_width)
        self.font_height = 0
        self.font_width = 0
        # picture
        self.canvas = []            # list of bytearray, one per pixel row
        self.text = []              # list of lists of unicode, one per text row
        self.attrs = []             # list of lists of int
        # provenance of each text cell: which kind of signal touched it last
        self.tags = []
        # other state
        self.palette = None
        self.pack_pixels = None
        self.border_attr = None
        self.cursor_visible = None
        self.cursor_blinks = None
        self.cursor_pos = None      # (row, col)
        self.cursor_attr = None
        self.cursor_width = None
        self.cursor_shape = None    # (from_line, to_line)
        # statistics and anomalies (signals a front end could not apply as intended)
        self.counts = {}
        self.anomalies = []
        self.n_applied = 0
        self.mode_sets = 0

    # ------------------------------------------------------------------
    # hook for SimVideoQueue

    def apply(self, signal):
        """Apply one signal through the real dispatcher."""
        self.n_applied += 1
        self.counts[signal.event_type] = self.counts.get(signal.event_type, 0) + 1
        self._q.put(signal)
        self._drain_queue()

    # ------------------------------------------------------------------
    # read-out

    def pixel_rows(self):
        """Canvas as tuple of bytes per row."""
        return tuple(bytes(r) for r in self.canvas)

    def text_rows(self):
        """Text grid as tuple of tuples of unicode."""
        return tuple(tuple(r) for r in self.text)

    def resync(self, pixel_rows=None, text_rows=None):
        """Overwrite the picture (used after a reported mismatch so later ones show separately)."""
        if pixel_rows is not None and len(pixel_rows) == len(self.canvas):
            self.canvas = [bytearray(r) for r in pixel_rows]
        if text_rows is not None and len(text_rows) == len(self.text):
            self.text = [list(r) for r in text_rows]
        self.tags = [['resync'] * len(r) for r in self.tags]

    def tag_at(self, row0, col0):
        """Kind of signal that last touched text cell (0-based)."""
        try:
            return self.tags[row0][col0]
        except IndexError:
            return 'outside'

    @staticmethod
    def _moved(tags, how):
        """Provenance of a row moved by a scroll: 'vacated' is sticky, anything else becomes 'moved'."""
        return [t if t.endswith('vacated') else how for t in tags]

    def _anomaly(self, what):
        if len(self.anomalies) < 20:
            self.anomalies.append(what)

    # ------------------------------------------------------------------
    # signal handlers (names and signatures are VideoPlugin's)

    def set_mode(self, canvas_height, canvas_width, text_height, text_width):
        """Initialise a given text or graphics mode: fresh, black, blank."""
        self.mode = (canvas_height, canvas_width, text_height, text_width)
        self.mode_sets += 1
        self.font_height = -(-canvas_height // text_height)
        self.font_width = canvas_width // text_width
        self.canvas = [bytearray(canvas_width) for _ in range(canvas_height)]
        self.text = [[u' '] * text_width for _ in range(text_height)]
        self.attrs = [[0] * text_width for _ in range(text_height)]
        self.tags = [['set_mode'] * text_width for _ in range(text_height)]
        # standard cursor
        self.cursor_width = self.font_width
        self.cursor_shape = (0, self.font_height - 1)

    def set_palette(self, attributes, pack_pixels):
        self.palette = attributes
        self.pack_pixels = pack_pixels

    def set_border_attr(self, attr):
        self.border_attr = attr

    def set_caption_message(self, msg):
        pass

    def set_clipboard_text(self, text):
        pass

    def show_cursor(self, cursor_on, cursor_blinks):
        self.cursor_visible = cursor_on
        self.cursor_blinks = cursor_blinks

    def move_cursor(self, row, col, attr, width):
        self.cursor_pos = (row, col)
        self.cursor_attr = attr
        self.cursor_width = width

    def set_cursor_shape(self, from_line, to_line):
        self.cursor_shape = (from_line, to_line)

    def clear_rows(self, back_attr, start, stop):
        """Clear a range of text rows (1-based, inclusive) to the background attribute."""
        if self.mode is None:
            self._anomaly('clear_rows before set_mode')
            return
        if start < 1 or stop > self.mode[2] or stop < start:
            self._anomaly('clear_rows out of range: %r..%r' % (start, stop))
        fh = self.font_height
        width = self.mode[1]
        for y in range(max(0, (start - 1) * fh), min(len(self.canvas), stop * fh)):
            self.canvas[y] = bytearray([back_attr & 0xff]) * width
        for r in range(max(1, start), min(self.mode[2], stop) + 1):
            self.text[r - 1] = [u' '] * self.mode[3]
            self.attrs[r - 1] = [back_attr] * self.mode[3]
            self.tags[r - 1] = ['clear_rows'] * self.mode[3]

    def scroll(self, direction, from_line, scroll_height, back_attr):
        """
        Scroll text rows from_line..scroll_height (1-based, inclusive) by one; -1 is up.
        Literal slice semantics of the SDL2 front end (an empty or inverted range moves nothing but
        still blanks the 'vacated' row), and of the text front ends for the text grid.
        """
        if self.mode is None:
            self._anomaly('scroll before set_mode')
            return
        if from_line < 1 or scroll_height > self.mode[2] or scroll_height < from_line:
            self._anomaly('scroll out of range: %r..%r' % (from_line, scroll_height))
        fh = self.font_height
        width = self.mode[1]
        nrows, ncols = self.mode[2], self.mode[3]
        canvas = self.canvas
        n = len(canvas)

        def rng_(a, z):
            # indices of the python slice a:z on the canvas
            return range(*slice(a, z).indices(n))

        hi = rng_((from_line - 1) * fh, (scroll_height - 1) * fh)
        lo = rng_(from_line * fh, scroll_height * fh)
        blank = bytearray([back_attr & 0xff]) * width
        a, b = from_line - 1, scroll_height - 1      # 0-based text rows
        if direction == -1:
            moved = [bytearray(canvas[y]) for y in lo]
            for y, row in zip(hi, moved):
                canvas[y] = row
            for y in rng_((scroll_height - 1) * fh, scroll_height * fh):
                canvas[y] = bytearray(blank)
            if 0 <= a < b < nrows:
                self.text[a:b] = self.text[a + 1:b + 1]
                self.attrs[a:b] = self.attrs[a + 1:b + 1]
                self.tags[a:b] = [self._moved(t, 'moved-by-scroll') for t in self.tags[a + 1:b + 1]]
            vac = b
            tag = 'scroll-up-vacated'
        else:
            moved = [bytearray(canvas[y]) for y in hi]
            for y, row in zip(lo, moved):
                canvas[y] = row
            for y in rng_((from_line - 1) * fh, from_line * fh):
                canvas[y] = bytearray(blank)
            if 0 <= a < b < nrows:
                self.text[a + 1:b + 1] = self.text[a:b]
                self.attrs[a + 1:b + 1] = self.attrs[a:b]
                self.tags[a + 1:b + 1] = [self._moved(t, 'moved-by-scroll') for t in self.tags[a:b]]
            vac = a
            tag = 'scroll-down-vacated'
        if 0 <= vac < nrows:
            self.text[vac] = [u' '] * ncols
            self.attrs[vac] = [back_attr] * ncols
            self.tags[vac] = [tag] * ncols

    def update(self, row, col, unicode_matrix, attr_matrix, y0, x0, sprite):
        """Put text and pixels at a given position."""
        if self.mode is None:
            self._anomaly('update before set_mode')
            return
        # text part (what the text front ends show)
        full = (row == 1 and col == 1 and len(unicode_matrix) == self.mode[2]
                and all(len(_r) == self.mode[3] for _r in unicode_matrix))
        tag = 'full-update' if full else 'update'
        for i, (trow, arow) in enumerate(zip(unicode_matrix, attr_matrix)):
            r = row - 1 + i
            if not 0 <= r < self.mode[2]:
                self._anomaly('update text row out of range: %r' % (r + 1,))
                continue
            for j, (ch, at) in enumerate(zip(trow, arow)):
                c = col - 1 + j
                if not 0 <= c < self.mode[3]:
                    self._anomaly('update text col out of range: %r' % (c + 1,))
                    continue
                self.text[r][c] = ch
                self.attrs[r][c] = at
                self.tags[r][c] = tag
        # pixel part (what the graphical front ends show)
        if not sprite:
            return
        height, width = sprite.height, sprite.width
        data = sprite.to_bytes()
        if len(data) != height * width:
            self._anomaly('sprite size mismatch')
            return
        cheight, cwidth = self.mode[0], self.mode[1]
        if y0 < 0 or x0 < 0:
            self._anomaly('update at negative pixel position')
            return
        # clip to size if needed, as the SDL2 front end does
        use_w = min(width, cwidth - x0)
        if use_w <= 0:
            return
        for i in range(min(height, cheight - y0)):
            self.canvas[y0 + i][x0:x0 + use_w] = data[i * width:i * width + use_w]
