"""
sim.runner - seeded search over simulated runs, minimisation, replay files, evidence.

A *machine* (sim/machines/<name>.py) exposes:
    NAME                       str
    PROPS                      tuple of property ids it can judge
    RULE                       str: the abstraction behind 'distinct_nontrivial'
    REAL / STUB                lists of components that ran real code / were stubbed
    quick_runs(prop)           int: runs in the quick tier
    gen(rng, tier, prop)       -> case dict {'machine','prop','cfg','ops'} (JSON-serialisable)
    run(case)                  -> result dict (see new_result)
A case is executable without any PRNG; every sub-list of case['ops'] is executable.
"""

import os
import sys
import json
import time
import random
import signal
import fnmatch
import hashlib
import importlib
import subprocess
import collections
import faulthandler
import multiprocessing
from concurrent.futures import ProcessPoolExecutor, wait, FIRST_COMPLETED
from concurrent.futures.process import BrokenProcessPool

from . import kernel as K

VERIF = os.path.dirname(os.path.dirname(os.path.abspath(__file__)))
PY = sys.executable
WORKERS = int(os.environ.get('VERIF_WORKERS', '16'))
RUN_WALL_S = int(os.environ.get('VERIF_RUN_WALL_S', '45'))


def new_result():
    return {
        'violations': [],    # [{'prop','sig','detail'}]
        'status': 'ok',      # ok | aborted | crash
        'stats': collections.Counter(),
        'faults': collections.Counter(),
        'probes': collections.Counter(),
        'states': set(),
        'digest': '',
        'sim_us': 0,
    }


def load_machine(name):
    return importlib.import_module('sim.machines.' + name)


class WallAlarm(BaseException):
    pass


def _alarm(signum, frame):
    raise WallAlarm()


def run_case(machine, case, wall_s=None):
    """Run one case with a CPU-time alarm. Returns result dict."""
    if wall_s is None:
        # a machine whose single run legitimately does a lot (a full crash-point sweep) says so
        wall_s = getattr(machine, 'RUN_CPU_S', RUN_WALL_S)
    K.install_seams()
    # the alarm counts this process's CPU time (user + system), not wall time: a run that spins has burnt it,
    # a run that merely shares the machine with other jobs has not (all sleeps of the engine are simulated)
    old = signal.signal(signal.SIGPROF, _alarm)
    signal.setitimer(signal.ITIMER_PROF, wall_s)
    try:
        res = machine.run(case)
    except K.HarnessError as e:
        # the machine could not set the run up or lost track of the engine: that run is given up and counted
        # (status 'harness-error', first message kept); it is not a verdict on the property either way
        res = new_result()
        res['status'] = 'harness-error'
        res['stats']['harness-error: ' + str(e)[:160]] += 1
        K.WORLD = None
    except WallAlarm:
        res = new_result()
        res['status'] = 'hang'
        res['violations'].append({
            'prop': case['prop'], 'sig': 'hang:no-poll-for-%ds-wall' % wall_s,
            'detail': 'run did not finish within %d s of CPU time; no poll cap was reached' % wall_s,
        })
        K.WORLD = None
    finally:
        signal.setitimer(signal.ITIMER_PROF, 0)
        signal.signal(signal.SIGPROF, old)
    return res


def _worker_batch(args):
    """Execute a batch of run indices; return aggregated summary."""
    mname, prop, tier, verif_seed, indices = args
    # the engine logs a warning for every I/O error it maps to a BASIC error
    import logging
    logging.disable(logging.CRITICAL)
    machine = load_machine(mname)
    # last resort against a run that blocks without burning CPU: wall time, generous
    faulthandler.dump_traceback_later(4 * getattr(machine, 'RUN_CPU_S', RUN_WALL_S) * len(indices) + 300, exit=True)
    try:
        agg = {
            'runs': 0, 'stats': collections.Counter(), 'faults': collections.Counter(),
            'probes': collections.Counter(), 'states': set(), 'status': collections.Counter(),
            'violations': [], 'sim_us': 0, 'digests': [], 'samples': [], 'other': collections.Counter(),
        }
        for i in indices:
            seed = K.derive_seed(prop, verif_seed, i)
            rng = random.Random(seed)
            case = machine.gen(rng, tier, prop)
            case['seed'] = seed
            case['index'] = i
            res = run_case(machine, case)
            agg['runs'] += 1
            agg['stats'].update(res['stats'])
            agg['faults'].update(res['faults'])
            agg['probes'].update(res['probes'])
            agg['states'] |= res['states']
            agg['status'][res['status']] += 1
            agg['sim_us'] += res['sim_us']
            agg['digests'].append((i, res['digest']))
            if len(agg['samples']) < 1:
                agg['samples'].append({'index': i, 'cfg': case['cfg'], 'ops': case['ops'][:12]})
            for v in res['violations']:
                if v['prop'] == prop:
                    agg['violations'].append({'index': i, 'seed': seed, 'case': case, 'v': v})
                else:
                    agg['other']['%s:%s' % (v['prop'], v['sig'])] += 1
        return agg
    finally:
        faulthandler.cancel_dump_traceback_later()


###############################################################################
# minimisation

def _has(res, prop, sig):
    return any(v['prop'] == prop and v['sig'] == sig for v in res['violations'])


def minimise(machine, case, prop, sig, budget_s=90):
    """ddmin over case['ops'], then per-op simplification offered by the machine."""
    t0 = K.real_monotonic()
    tests = [0]

    def fails(ops, cfg=None):
        c = dict(case)
        c['ops'] = ops
        if cfg is not None:
            c['cfg'] = cfg
        tests[0] += 1
        try:
            return _has(run_case(machine, c), prop, sig)
        except K.HarnessError:
            return False

    ops = list(case['ops'])
    n = 2
    while len(ops) >= 2 and K.real_monotonic() - t0 < budget_s:
        chunk = max(1, len(ops) // n)
        reduced = False
        for start in range(0, len(ops), chunk):
            cand = ops[:start] + ops[start + chunk:]
            if cand and fails(cand):
                ops = cand
                n = max(n - 1, 2)
                reduced = True
                break
            if K.real_monotonic() - t0 > budget_s:
                break
        if not reduced:
            if chunk == 1:
                break
            n = min(len(ops), n * 2)
    # single-op removal pass
    i = 0
    while i < len(ops) and len(ops) > 1 and K.real_monotonic() - t0 < budget_s:
        cand = ops[:i] + ops[i + 1:]
        if fails(cand):
            ops = cand
        else:
            i += 1
    cfg = case['cfg']
    # machine-specific simplifications
    simp = getattr(machine, 'simplify', None)
    if simp is not None:
        progress = True
        while progress and K.real_monotonic() - t0 < budget_s:
            progress = False
            for cand_cfg, cand_ops in simp(cfg, ops):
                if fails(cand_ops, cand_cfg):
                    cfg, ops = cand_cfg, cand_ops
                    progress = True
                    break
                if K.real_monotonic() - t0 > budget_s:
                    break
    out = dict(case)
    out['ops'] = ops
    out['cfg'] = cfg
    return out, tests[0]


###############################################################################
# known findings

def load_known():
    path = os.path.join(VERIF, 'known_findings.json')
    try:
        with open(path) as f:
            return json.load(f).get('findings', [])
    except FileNotFoundError:
        return []


def match_known(prop, sig, known):
    for k in known:
        if k.get('status') == 'known' and k.get('property') == prop and fnmatch.fnmatchcase(sig, k['signature']):
            return k
    return None


###############################################################################
# replay

def write_replay(prop, mname, case, v, digest):
    d = os.environ.get('VERIF_REPLAY_DIR') or os.path.join(VERIF, 'replays')
    os.makedirs(d, exist_ok=True)
    h = hashlib.sha256((v['sig'] + json.dumps([case['cfg'], case['ops']], sort_keys=True, default=str)).encode()).hexdigest()[:8]
    path = os.path.join(d, '%s-%s-%s.json' % (prop, case.get('seed', 0), h))
    with open(path, 'w') as f:
        json.dump({
            'property': prop, 'machine': mname, 'seed': case.get('seed'), 'index': case.get('index'),
            'case': case, 'violation': v, 'digest': digest,
        }, f, indent=1, sort_keys=True)
    return path


def replay_file(path):
    """Replay in this process. Returns (reproduced, result, record)."""
    with open(path) as f:
        rec = json.load(f)
    machine = load_machine(rec['machine'])
    res = run_case(machine, rec['case'])
    ok = _has(res, rec['property'], rec['violation']['sig'])
    return ok, res, rec


def replay_fresh(path):
    """Replay in a fresh interpreter; returns (exit code, stdout)."""
    env = dict(os.environ)
    env['PYTHONHASHSEED'] = '0'
    p = subprocess.run(
        [PY, os.path.join(VERIF, 'checks', 'replay.py'), path],
        capture_output=True, env=env, timeout=600, cwd=VERIF,
    )
    return p.returncode, p.stdout.decode('utf-8', 'replace') + p.stderr.decode('utf-8', 'replace')


###############################################################################
# main entry for a check

def _jsonable(x):
    if isinstance(x, (set, frozenset)):
        return sorted(_jsonable(i) for i in x)
    if isinstance(x, (collections.Counter, dict)):
        return {str(k): _jsonable(v) for k, v in sorted(x.items(), key=lambda kv: str(kv[0]))}
    if isinstance(x, (list, tuple)):
        return [_jsonable(i) for i in x]
    if isinstance(x, bytes):
        return x.decode('latin-1')
    return x


def check_main(prop, mname, argv=None, level_text=None):
    """Entry point of checks/cNN.py."""
    import argparse
    ap = argparse.ArgumentParser()
    ap.add_argument('--tier', default=os.environ.get('VERIF_TIER', 'quick'))
    ap.add_argument('--runs', type=int, default=None)
    ap.add_argument('--replay', default=None)
    ap.add_argument('--no-evidence', action='store_true')
    ap.add_argument('--budget', type=float, default=None)
    args = ap.parse_args(argv)
    if args.replay:
        return replay_main(args.replay)
    tier = args.tier if args.tier in ('quick', 'thorough') else 'quick'
    verif_seed = int(os.environ.get('VERIF_SEED', '0') or 0)
    print('VERIF_SEED=%d property=%s machine=%s tier=%s repo=%s' % (verif_seed, prop, mname, tier, K.REPO))
    sys.stdout.flush()
    t0 = time.monotonic()
    machine = load_machine(mname)
    if tier == 'quick':
        n_runs = args.runs or machine.quick_runs(prop)
        budget_s = args.budget or float(os.environ.get('VERIF_QUICK_BUDGET_S', '150'))
    else:
        n_runs = args.runs or 10 ** 9
        budget_s = args.budget or float(os.environ.get('VERIF_BUDGET_S', '600'))
    batch = getattr(machine, 'BATCH', 20)
    total = {
        'runs': 0, 'stats': collections.Counter(), 'faults': collections.Counter(),
        'probes': collections.Counter(), 'states': set(), 'status': collections.Counter(),
        'violations': [], 'sim_us': 0, 'samples': [], 'other': collections.Counter(),
        'known_counts': collections.Counter(),
    }
    first_seed = K.derive_seed(prop, verif_seed, 0)
    harness_error = None
    known = load_known()
    unknown_violations = 0
    ctx = multiprocessing.get_context('fork')
    next_i = 0
    stop_submitting = False
    with ProcessPoolExecutor(max_workers=WORKERS, mp_context=ctx) as pool:
        pending = set()
        try:
            while True:
                while not stop_submitting and len(pending) < WORKERS * 2 and next_i < n_runs:
                    idx = list(range(next_i, min(n_runs, next_i + batch)))
                    next_i = idx[-1] + 1
                    pending.add(pool.submit(_worker_batch, (mname, prop, tier, verif_seed, idx)))
                if not pending:
                    break
                done, pending = wait(pending, timeout=5, return_when=FIRST_COMPLETED)
                for fut in done:
                    agg = fut.result()
                    total['runs'] += agg['runs']
                    for k in ('stats', 'faults', 'probes', 'status', 'other'):
                        total[k].update(agg[k])
                    total['states'] |= agg['states']
                    total['sim_us'] += agg['sim_us']
                    for rec in agg['violations']:
                        if match_known(prop, rec['v']['sig'], known) is None:
                            unknown_violations += 1
                            total['violations'].append(rec)
                        else:
                            # keep a few per known signature (for the KNOWN-FINDING lines), count the rest
                            total['known_counts'][rec['v']['sig']] += 1
                            if total['known_counts'][rec['v']['sig']] <= 2:
                                total['violations'].append(rec)
                    if len(total['samples']) < 3:
                        total['samples'].extend(agg['samples'])
                if time.monotonic() - t0 > budget_s:
                    stop_submitting = True
                # stop early once several violations are in: they need minimising
                if unknown_violations >= int(os.environ.get('VERIF_MAX_VIOLATIONS', '40')):
                    stop_submitting = True
        except BrokenProcessPool as e:
            harness_error = 'worker died: %r' % (e,)
    explore_s = time.monotonic() - t0

    # group violations by signature, earliest run index first
    by_sig = collections.OrderedDict()
    for rec in sorted(total['violations'], key=lambda r: (r['index'], r['v']['sig'])):
        by_sig.setdefault(rec['v']['sig'], []).append(rec)
    exit_code = 0
    reported = []
    known_hits = []
    for sig, recs in by_sig.items():
        k = match_known(prop, sig, known)
        if k is not None:
            nk = total['known_counts'].get(sig, len(recs))
            print('KNOWN-FINDING: property=%s %s [%s] (%d runs)' % (prop, k.get('what', ''), sig, nk))
            known_hits.append({'signature': sig, 'runs': nk})
            continue
        if len(reported) >= int(os.environ.get('VERIF_MAX_REPORT', '3')):
            exit_code = 1
            print('further violation class (not minimised): %s (%d runs, first index %d): %s' % (
                sig, len(recs), recs[0]['index'], str(recs[0]['v']['detail'])[:300].replace('\n', ' | ')))
            continue
        rec = recs[0]
        case = rec['case']
        # (a) reproduce in this process, without the PRNG
        K.install_seams()
        res = run_case(machine, case)
        if not _has(res, prop, sig):
            if sig.startswith('hang:'):
                # a time-out that does not come back when the run is repeated was the machine, not the engine
                print('note: %s at index %d did not reproduce; not reported' % (sig, rec['index']))
                continue
            print('HARNESS-ERROR flaky: property=%s sig=%s index=%d did not reproduce' % (prop, sig, rec['index']))
            harness_error = 'flaky violation %s' % sig
            continue
        # (b) minimise
        small, ntests = minimise(machine, case, prop, sig, budget_s=60 if tier == 'quick' else 180)
        res = run_case(machine, small)
        if not _has(res, prop, sig):
            # the minimised case does not show it again (a wall-clock alarm, or something the case does not own):
            # report the case as found
            small = case
            res = run_case(machine, small)
            if not _has(res, prop, sig):
                print('HARNESS-ERROR flaky: property=%s sig=%s index=%d reproduced once and then no more' % (prop, sig, rec['index']))
                harness_error = 'flaky violation %s' % sig
                continue
        v = [x for x in res['violations'] if x['prop'] == prop and x['sig'] == sig][0]
        path = write_replay(prop, mname, small, v, res['digest'])
        # (d) fresh-interpreter replay
        rc, out = replay_fresh(path)
        if rc != 1:
            print('HARNESS-ERROR flaky: replay of %s in a fresh interpreter gave exit %d\n%s' % (path, rc, out[-2000:]))
            harness_error = 'replay mismatch %s' % sig
            continue
        print('violation: %s (%d ops after %d minimisation runs; seen in %d runs)' % (
            sig, len(small['ops']), ntests, len(recs)))
        print('  detail: %s' % (str(v['detail'])[:1500],))
        print('VIOLATION property=%s replay=%s' % (prop, path))
        reported.append({'signature': sig, 'replay': path, 'ops': len(small['ops'])})
        exit_code = 1
    wall = time.monotonic() - t0
    runs = total['runs']
    if runs == 0 and harness_error is None:
        harness_error = 'no runs executed'
    if not args.no_evidence and runs:
        ev = {
            'property_id': prop, 'tier': tier, 'seed': verif_seed, 'level': 'exploration',
            'coverage': {
                'evaluations': runs,
                'distinct_nontrivial': len(total['states']),
                'rule': machine.RULE,
                'samples': _jsonable(total['samples'][:3]),
                'runs_per_hour': int(runs / max(explore_s, 1e-6) * 3600),
                'first_run_seed': first_seed,
                'last_run_seed': K.derive_seed(prop, verif_seed, max(0, next_i - 1)),
                'run_indices': [0, next_i - 1],
                'simulated_seconds': round(total['sim_us'] / 1e6, 1),
                'ops': total['stats'].get('ops', 0),
                'polls': total['stats'].get('polls', 0),
                'stats': _jsonable(total['stats']),
                'faults_fired': _jsonable(total['faults']),
                'probes': _jsonable(total['probes']),
                'run_status': _jsonable(total['status']),
                'known_findings_hit': known_hits,
                'violations_reported': reported,
                'other_property_observations': _jsonable(dict(total['other'].most_common(20))),
                'real_components': machine.REAL,
                'stub_components': machine.STUB,
                'workers': WORKERS,
            },
            'assumptions': getattr(machine, 'ASSUMPTIONS', []) + [
                'seeded sampling of schedules/faults/histories: a clean batch is evidence, not proof',
                'replay = recorded config + op list, independent of the PRNG',
            ],
            'wall_s': round(wall, 2),
            'violations': len(reported) + (1 if exit_code and not reported else 0),
        }
        os.makedirs(os.path.join(VERIF, 'evidence'), exist_ok=True)
        with open(os.path.join(VERIF, 'evidence', prop + '.json'), 'w') as f:
            json.dump(ev, f, indent=1, sort_keys=True)
    print('%s %s: %d runs, %d distinct states, %.0f sim-s, faults=%s, status=%s, %.1fs wall (%d runs/h)' % (
        prop, tier, runs, len(total['states']), total['sim_us'] / 1e6,
        dict(total['faults']), dict(total['status']), wall, int(runs / max(explore_s, 1e-6) * 3600)))
    if total['other']:
        print('note: observations tagged for other properties (not judged here): %s' % dict(total['other'].most_common(5)))
    nh = total['status'].get('harness-error', 0)
    if nh:
        first = [k for k in total['stats'] if str(k).startswith('harness-error: ')][:2]
        print('note: %d of %d runs were given up by the harness itself (no verdict from them): %s' % (nh, runs, first))
        if nh * 5 > runs:
            harness_error = harness_error or 'more than a fifth of the runs were given up by the harness'
    if harness_error and exit_code == 0:
        print('HARNESS-ERROR: %s' % harness_error)
        return 2
    return exit_code


def replay_main(path):
    K.install_seams()
    ok, res, rec = replay_file(path)
    print('replay %s: property=%s sig=%s digest=%s (recorded %s)' % (
        path, rec['property'], rec['violation']['sig'], res['digest'], rec['digest']))
    if ok and res['digest'] == rec['digest']:
        v = [x for x in res['violations'] if x['sig'] == rec['violation']['sig']][0]
        print('  detail: %s' % (str(v['detail'])[:3000],))
        print('VIOLATION property=%s replay=%s' % (rec['property'], path))
        return 1
    if ok:
        print('violation reproduced but event-log digest differs (HARNESS-ERROR nondeterminism)')
        return 2
    print('violation did not reproduce')
    return 0
