#!/usr/bin/env python3
"""
Write /verif/mutants/<name>.patch from textual replacements on /repo's current working tree (which is not touched).

usage: mkmutant.py <name> <repo-relative-file> <<'EOF'
<old text>
=====
<new text>
#####            (optional: further old/new pairs)
<old text>
=====
<new text>
EOF
Each old text must occur exactly once in the file.
"""
import os
import sys
import difflib

VERIF = os.path.dirname(os.path.dirname(os.path.abspath(__file__)))


def main():
    name, rel = sys.argv[1], sys.argv[2]
    src = open(os.path.join('/repo', rel)).read()
    new = src
    for pair in sys.stdin.read().split('\n#####\n'):
        old, _, rep = pair.partition('\n=====\n')
        old = old.strip('\n')
        rep = rep.strip('\n')
        if new.count(old) != 1:
            sys.exit('old text occurs %d times: %r' % (new.count(old), old[:60]))
        new = new.replace(old, rep)
    diff = ''.join(difflib.unified_diff(src.splitlines(True), new.splitlines(True), 'a/' + rel, 'b/' + rel))
    compile(new, rel, 'exec')
    open(os.path.join(VERIF, 'mutants', name + '.patch'), 'w').write(diff)
    print('%s: %d lines' % (name, diff.count('\n')))


if __name__ == '__main__':
    main()
