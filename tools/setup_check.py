#!/usr/bin/env python
"""setup_cmd: verify the harness imports against /repo's working tree and is deterministic on a tiny sample."""
import os
import sys
import random

VERIF = os.path.dirname(os.path.dirname(os.path.abspath(__file__)))
sys.path.insert(0, VERIF)
os.environ.setdefault('PYTHONDONTWRITEBYTECODE', '1')
sys.dont_write_bytecode = True

from sim import kernel as K
from sim import runner

K.install_seams()
m = runner.load_machine('rnd')
for i in range(5):
    seed = K.derive_seed('setup', 0, i)
    c1 = m.gen(random.Random(seed), 'quick', 'C39')
    c2 = m.gen(random.Random(seed), 'quick', 'C39')
    assert c1 == c2, 'generator not deterministic'
    c1['seed'] = c2['seed'] = seed
    r1 = runner.run_case(m, c1)
    r2 = runner.run_case(m, c2)
    assert r1['digest'] == r2['digest'], 'run not deterministic'
    assert not r1['violations'], r1['violations']
print('setup ok: harness imports pcbasic from %s; smoke determinism passed' % K.REPO)
