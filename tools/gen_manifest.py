#!/usr/bin/env python3
"""Generate /verif/MANIFEST.json from the table below (keeps it valid at all times)."""
import json
import os

VERIF = os.path.dirname(os.path.dirname(os.path.abspath(__file__)))
PY = '/venv/bin/python'

# property -> (machine, design section, level text, level note)
BUILT = {
    'C39': ('rnd', '4/C39',
            'Seeded search over RND/RANDOMIZE/RUN/CLEAR/NEW/suspend-resume/clock-jump histories, each run in two '
            'arms with different simulated clocks, poll jitter and trap order; every value read is checked against '
            'a reference LCG (a=214013, c=2531011, m=2^24) and reseeds are required to be functions of '
            '(previous seed, argument). Exploration is the right level: independence from clock/schedule/restart '
            'is a property over schedules and histories that can only be sampled.',
            'Trusts: the reference LCG constants (GW-BASIC documentation), Hull-Dobell for the period, the '
            'simulated clock seam covering every clock read of the engine.'),
}

BUILT['C37'] = ('kbd', '4/C37',
    'Seeded search over histories of typing bursts (key-down signals delivered at chosen polls, also while a '
    'stored program spins on INKEY$), INKEY$/INPUT$/LINE INPUT reads, BIOS ring-buffer PEEKs, the documented '
    'clearing POKE and suspend/resume, against a 15-key drop-when-full FIFO model; full-buffer beeps are counted '
    'on the audio queue. Exploration: the property quantifies over histories of an asynchronous producer.',
    'Trusts: the key-down signal format of the interface protocol; only drop-free schedules are judged when keys '
    'arrive while a program consumes them (drops would depend on the interleaving).')

BUILT['C40'] = ('resume', '4/C40',
    'Crash-point search: generated programs (loops, GOSUB, GOTO, IF, ON ERROR/RESUME NEXT, DEF FN, READ/DATA, '
    'sequential and random files, INPUT) run once uninterrupted under Session.interact(), then again with QUIT at '
    'sampled (quick) or all (thorough sweep) statement-boundary polls -> suspend -> close -> resume -> attach -> '
    'continue, incl. double suspensions; output pipe, final variables, host files, text screen and pixels must '
    'equal the uninterrupted run. State-file corruption: altered bytes must make Session.resume raise. '
    'Exploration over crash points x programs is what the property quantifies over.',
    'Trusts: the typist (scripted input through the input queue); suspension points judged for equality are '
    'statement-loop polls; a QUIT inside a blocking statement is only required not to crash and to finish.')

BUILT['C38'] = ('events', '4/C38',
    'Schedule search: DSL programs (markers, ev ON/OFF/STOP in main code, subroutines, trap routines and the error '
    'handler, ERROR/RESUME NEXT, GOSUB, FOR loops) run with KEY/TIMER/PEN/STRIG occurrences keyed by program '
    'position (before line L executes for the c-th time, seen through the public step hook), several at one '
    'boundary, under seeded trap-dispatch orders; the engine marker trace must be one of the traces of a '
    'nondeterministic reference interpreter carrying the trap state machine of the property (branches only '
    'where the property is silent). Also: occurrences after the program ended must not start handlers.',
    'Trusts: the reference interpreter (~150 lines); GW-BASIC manual semantics where the property is silent '
    '(RETURN re-enables unless OFF inside). COM and PLAY traps are not exercised (no serial back end; PLAY not modelled).')

PURE = {
    'C02': 'pure function of two 16-bit operands: no schedule, clock, fault or history for a simulator to own (needs exhaustive enumeration/SMT)',
    'C03': 'pure function of a bit pattern: not a simulation target',
    'C04': 'pure function of operand bit patterns: not a simulation target',
    'C05': 'pure function of operands: not a simulation target',
    'C06': 'pure function of operands: not a simulation target',
    'C07': 'pure function of a value or a string: not a simulation target',
    'C08': 'pure function of (format, value); the output stream adds nothing',
    'C09': 'pure functions of their arguments; in-place variants are exercised inside C10 histories but no verdict on C09 is drawn',
    'C17': 'pure function of a line and a dialect',
    'C18': 'pure function of the expression text',
    'C19': 'deterministic program semantics against a reference interpreter; no seam involved (traps/Break belong to C38/C40)',
    'C22': 'deterministic program semantics; no seam involved',
    'C31': 'pure function of coordinates and mode',
    'C32': 'pure function of a bitmap and a seed point',
    'C33': 'pure function of the command string and pen state',
    'C34': 'pure address arithmetic; BSAVE/BLOAD move the same bytes',
    'C43': 'pure function of the value',
}

PLANNED = ['C01', 'C10', 'C11', 'C12', 'C13', 'C14', 'C15', 'C16', 'C20', 'C21', 'C23', 'C24', 'C25', 'C26',
           'C27', 'C28', 'C29', 'C30', 'C35', 'C36', 'C37', 'C38', 'C40', 'C41', 'C42', 'C44']


def main():
    checks = []
    engines = {}
    for pid in sorted(BUILT):
        machine, ref, text, note = BUILT[pid]
        low = pid.lower()
        checks.append({
            'property_id': pid,
            'quick_cmd': 'cd /verif && %s checks/%s.py --tier quick' % (PY, low),
            'thorough_cmd': 'cd /verif && %s checks/%s.py --tier thorough' % (PY, low),
            'evidence_file': '/verif/evidence/%s.json' % pid,
            'replay_cmd_template': 'cd /verif && %s checks/replay.py {path}' % PY,
            'engine': machine,
            'level_claimed': {'category': 'exploration', 'text': text, 'design_ref': 'DESIGN.md section ' + ref},
            'level_note': note,
            'technique': 'deterministic simulation with fault injection: seeded search over simulated schedules/'
                         'faults/histories against a reference model, ddmin-minimised replay files',
        })
        engines.setdefault(machine, []).append(pid)
    na = [{'property_id': p, 'reason': r} for p, r in sorted(PURE.items())]
    for p in PLANNED:
        if p not in BUILT:
            na.append({'property_id': p, 'reason': 'not claimed yet: simulation check planned (DESIGN.md section 4) but not built at this commit'})
    na.sort(key=lambda d: d['property_id'])
    manifest = {
        'version': 1,
        'setup_cmd': 'cd /verif && %s tools/setup_check.py' % PY,
        'hooks': {
            'guard': 'PCBASIC_VERIF',
            'enable': 'no source hooks: all seams are checker-side (process-wide time/datetime/open/os patches in '
                      'worker processes, Session.attach of a simulated interface); checks import /repo working tree directly',
            'baseline_off_cmd': 'cd /repo && /venv/bin/python -m pytest -ra -q -p no:cacheprovider --timeout=900 '
                                '--continue-on-collection-errors',
            'source_commits': [],
            'add_only': True,
        },
        'engines': [
            {'name': m, 'path': '/verif/sim/machines/%s.py' % m, 'serves_properties': sorted(ps),
             'kind_free_text': 'simulated-world machine (workload generator + reference model/oracles) on sim/kernel.py'}
            for m, ps in sorted(engines.items())
        ],
        'checks': checks,
        'not_applicable': na,
        'notes': 'Technique: deterministic simulation with fault injection. See DESIGN.md. VERIF_SEED selects the seed; '
                 'VERIF_BUDGET_S bounds the thorough tier (default 600 s per property).',
    }
    with open(os.path.join(VERIF, 'MANIFEST.json'), 'w') as f:
        json.dump(manifest, f, indent=1)
    print('MANIFEST.json: %d checks, %d not claimed' % (len(checks), len(na)))


if __name__ == '__main__':
    main()
