#!/usr/bin/env python3
"""Generate /verif/MANIFEST.json from the table below (keeps it valid at all times)."""
import json
import os

VERIF = os.path.dirname(os.path.dirname(os.path.abspath(__file__)))
PY = '/venv/bin/python'

# property -> (machine, design section, level text, level note)
BUILT = {
    'C39': ('rnd', '4/C39',
            'Seeded search over RND/RANDOMIZE/RUN/CLEAR/NEW/suspend-resume/clock-jump histories, each run in two '
            'arms with different simulated clocks, poll jitter and trap order; every value read is checked against '
            'a reference LCG (a=214013, c=2531011, m=2^24) and reseeds are required to be functions of '
            '(previous seed, argument). Exploration is the right level: independence from clock/schedule/restart '
            'is a property over schedules and histories that can only be sampled.',
            'Trusts: the reference LCG constants (GW-BASIC documentation), Hull-Dobell for the period, the '
            'simulated clock seam covering every clock read of the engine.'),
}

BUILT['C37'] = ('kbd', '4/C37',
    'Seeded search over histories of typing bursts (key-down signals delivered at chosen polls, also while a '
    'stored program spins on INKEY$), INKEY$/INPUT$/LINE INPUT reads, BIOS ring-buffer PEEKs, the documented '
    'clearing POKE and suspend/resume, against a 15-key drop-when-full FIFO model; full-buffer beeps are counted '
    'on the audio queue. Exploration: the property quantifies over histories of an asynchronous producer.',
    'Trusts: the key-down signal format of the interface protocol; only drop-free schedules are judged when keys '
    'arrive while a program consumes them (drops would depend on the interleaving).')

BUILT['C40'] = ('resume', '4/C40',
    'Crash-point search: generated programs (loops, GOSUB, GOTO, IF, ON ERROR/RESUME NEXT, DEF FN, READ/DATA, '
    'sequential and random files, INPUT) run once uninterrupted under Session.interact(), then again with QUIT at '
    'sampled (quick) or all (thorough sweep) statement-boundary polls -> suspend -> close -> resume -> attach -> '
    'continue, incl. double suspensions; output pipe, final variables, host files, text screen and pixels must '
    'equal the uninterrupted run. State-file corruption: altered bytes must make Session.resume raise. '
    'Exploration over crash points x programs is what the property quantifies over.',
    'Trusts: the typist (scripted input through the input queue); suspension points judged for equality are '
    'statement-loop polls; a QUIT inside a blocking statement is only required not to crash and to finish.')

BUILT['C38'] = ('events', '4/C38',
    'Schedule search: DSL programs (markers, ev ON/OFF/STOP in main code, subroutines, trap routines and the error '
    'handler, ERROR/RESUME NEXT, GOSUB, FOR loops) run with KEY/TIMER/PEN/STRIG occurrences keyed by program '
    'position (before line L executes for the c-th time, seen through the public step hook), several at one '
    'boundary, under seeded trap-dispatch orders; the engine marker trace must be one of the traces of a '
    'nondeterministic reference interpreter carrying the trap state machine of the property (branches only '
    'where the property is silent). Also: occurrences after the program ended must not start handlers.',
    'Trusts: the reference interpreter (~150 lines); GW-BASIC manual semantics where the property is silent '
    '(RETURN re-enables unless OFF inside). COM and PLAY traps are not exercised (no serial back end; PLAY not modelled).')

_T = {
 'C01': ('chaos', 'Seeded search over session histories of template-generated statements with boundary arguments, stored programs, garbage/torn files to LOAD, typed input, interact-mode sessions and API calls, under injected host I/O errors, clock jumps, Break/pause/key/pen/stick/stream-closed signals at chosen polls, small memory and suspend/resume; Sessions built with documented defaults and through config.Settings. Oracle: only error.Exit or a normal return may leave a Session call (signature = exception type + innermost pcbasic frame); a run that stops polling is reported as a hang.',
         'No grammar coverage is claimed: statements come from templates. Printers, serial ports and SHELL children are unconfigured/stubbed. Every other machine also reports engine crashes under its own property.'),
 'C10': ('mem', 'Seeded search over histories of string assignments, concatenation, LEFT$/RIGHT$/MID$/STRING$ expressions, MID$ statement, LSET/RSET, SWAP, DIM/ERASE, DEF FN calls, FIELD variables, FRE and CLEAR under a per-run memory limit (down to ~150 bytes free) and forced garbage collection at a case-recorded subset of allocation checks; every live variable/element is read back against a dict model after every op; FRE("") must equal the calibrated free space minus records and live string bytes; Out of string space is spurious only if model and engine agree enough is free.',
         'Exact FRE only while no live string is owned by program text; the forced-GC seam wraps DataSegment.check_free from outside.'),
 'C11': ('mem', 'Same histories as C10; after each op the DS:358h-35Dh area pointers must be ordered, PEEK(VARPTR(v)+i) must equal MKI$/MKS$/MKD$ of the variable (length/address and characters for strings), VARPTR$ must encode type and address, all value and string-data ranges must be pairwise disjoint and packed, and assigning one variable must not change another.',
         'MBF encoding itself is not judged (only self-consistency with MKx$).'),
 'C12': ('mem', 'Same machine with array-heavy histories: DIM/auto-DIM in both OPTION BASEs, re-DIM, ERASE+DIM, failed DIM under memory pressure, out-of-range/wrong-rank/negative subscripts; a unique value is written to every element (all tuples up to 600 elements, boundary + scattered tuples above) and read back through the API and BASIC, under forced GC.',
         'Shapes, bases and tuples are sampled, not enumerated.'),
 'C13': ('prog', 'Seeded search over edit histories (line entry/replacement, empty lines, DELETE, RENUM, NEW, SAVE A/B/P + LOAD/MERGE on disk and bound files, AUTO sessions through the keyboard seam) under memory limits, injected I/O errors and torn files; after each op LIST (to a file) must equal a sorted-dict model, a PEEK walk from DS:30h must show ascending links ending in the terminator, and GOTO n must land on line n; failed stores/SAVEs leave the program unchanged, a faulted MERGE leaves base + a prefix.',
         'CAS1:, EDIT and CHAIN MERGE are not in this machine; equality after a torn binary file is not claimed.'),
 'C14': ('prog', 'Generated programs with every reference kind and armed error/event traps are run in two Sessions under one poll-keyed schedule; arm A executes RENUM where arm B resets the same stacks without renumbering. LIST must equal the model renumbering (references, kept missing targets, Undefined line notes, accept/reject), the line links must hold, and every later probe (direct ERROR n, GOTO wait-loop with a scheduled key/timer/pen/strig event, RUN) must give the same output in both arms once line numbers are mapped back.',
         'COM and PLAY traps are not exercised; comparison stops when a dangling reference is captured by a new line number.'),
 'C15': ('save', 'Seeded search over save/restart/load transactions on Z:, the @: bound-file device and CAS1: images: B and ,P round trips must restore a byte-identical PEEK image, ASCII round trips (LOAD, MERGE) the same listing; I/O errors on save must give a BASIC error and leave program memory unchanged; torn files must not crash; the command-line converter must produce the same bytes as SAVE in a session; the cipher is checked as a bijection over every (position mod 143, byte) pair and random lengths.',
         'ASCII equality only for canonical programs; WAV images are not used here.'),
 'C16': ('save', 'Information-flow search with hide_protected=True: a generated program with unique 12-byte markers in REM/DATA/never-printed literals is saved ,P and loaded; direct-mode histories (LIST/LLIST/EDIT/SAVE/PEEK sweeps/BSAVE/MERGE/CHAIN MERGE/line entry/POKE of the flag/READ/F-key macros/AUTO/RUN with Ctrl-Break at chosen positions/torn and faulted loads/error handlers) must never put a 6-byte window of a marker into the output pipe, get_chars, video update signals, variables, LPT1 capture, tape image or any scratch file that is not a ,P file; listed statements must give error 5, SAVE ,P must succeed, and the run output must equal the unprotected original.',
         'Suspend/resume, event traps and SHELL are not in the histories.'),
 'C20': ('errfn', 'Generated DEF FN programs (0-4 typed parameters named like globals, bodies that can block on INPUT$/INKEY$ or fail) run in interact mode; each call is bracketed by a dump of a fixed roster. Interrupts are delivered when the call is blocked: a key, Ctrl-Break then CONT, QUIT then suspend/resume, a trapped F1; forced GC and memory pressure. Dump after = dump before (except the target), results/errors against a small reference evaluator, recursion gives error 7.',
         'An interrupted statement may be abandoned or re-executed; results in rounding/soft-float corners are unjudged.'),
 'C21': ('errfn', 'Programs with multi-statement lines, nested subroutines and a handler choosing RESUME/RESUME NEXT/RESUME n/ON ERROR GOTO 0/error-in-handler; fault sites are ERROR n, 15 real runtime faults and device statements whose host call fails with a chosen errno for the first r attempts (RESUME as a retry loop). A reference model of statement pointer, GOSUB stack, trap state and remaining fault counts must produce the same event trace; bounded liveness: polls <= 6 x model steps + c once faults stop.',
         'Comparison stops at corners the property leaves open (RESUME n to a missing line, RETURN into a replaced direct line).'),
 'C23': ('chain', 'Random variable/array/string state (also near the memory limit), DEF FN, DEFtype, OPTION BASE, live GOSUB/FOR stacks, armed traps, advanced RND/READ state, then CLEAR / NEW / RUN n / CHAIN [MERGE] [,ALL][,DELETE] to a second generated program with random COMMON lists, under forced GC, memory pressure and I/O errors on the chained file; after a reset everything must read as in a fresh session; after CHAIN exactly the commons survive with identical contents and survive later allocations.',
         'OPTION BASE after CHAIN and a CHAIN ending in error 7/14 with little memory are unjudged.'),
 'C24': ('files', 'Seeded search over sequential-file histories (OPEN in both syntaxes, WRITE#, PRINT#, INPUT#, LINE INPUT#, INPUT$, EOF, LOF, CLOSE, APPEND, Session restart) against a per-file record model, with one injected host fault at a time on write/read/open/close/stat/seek/truncate: read fault => BASIC error and no wrong value, write/close fault => BASIC error and the host file is a prefix-consistent version of what was acknowledged; everything acknowledged by a successful CLOSE is there after restart.',
         'LF inside strings only with soft_linefeed; 255-character items are a known finding.'),
 'C25': ('files', 'Random-file histories (three OPEN syntaxes, record lengths 1-255, FIELD layouts, LSET/RSET, PUT/GET with implicit/repeated/gapped/boundary record numbers, LOF, LOC, reopen with another length, restart) against a bytearray model per host file; a failed PUT leaves the record old, new or a prefix of new, every other byte unchanged; record numbers outside 1..2^25 give error 63.',
         'Two file numbers on one file keep separate buffers as in GW-BASIC (known finding).'),
 'C26': ('files', 'Histories of 2-3 file numbers on one file: OPEN modes/ACCESS/LOCK clauses, LOCK/UNLOCK with contained/containing/overlapping/adjacent/whole-file ranges, GET/PUT, CLOSE. Implementation-independent oracle: the set of acknowledged locks never holds two overlapping ranges, an overlapping LOCK gives error 70, GET/PUT inside a range held through another number fails, UNLOCK succeeds iff exactly that range is held.',
         'Second open of a file held for OUTPUT/APPEND in INPUT/RANDOM mode is accepted as in GW-BASIC 3.23 (known finding).'),
 'C27': ('fs', 'Monitor search: every file statement with path strings over drive prefixes, separators, dots, dot-blank elements, wildcards, long/non-ASCII names, CHDIR histories and another party changing the mounts; during each statement every wrapped FS call and every audit-hook event must resolve inside a mount root (fixed allow-list: devnull, read-only package data); sentinel files outside the mounts must be byte- and mode-identical at the end and never appear in output or inside the mounts.',
         'Symlinks inside mounts are outside the property; mutating calls outside the scratch tree are refused by the sandbox guard after being recorded.'),
 'C28': ('fs', 'Name-mapping search on mounts pre-populated with mixed-case, long, non-ASCII and colliding names, with files vanishing/appearing between statements: create/read/KILL/NAME/FILES under random capitalisations judged against the live host directory (each file carries a unique number): legal 8.3 names are created in upper case, .BAS is added exactly when a program name has no dot, any capitalisation reaches the same file, illegal names give error 64, FILES lists every visible file under the name that opens it.',
         'Which of several pre-existing case-colliding host files is picked is unjudged; a collision added by another party is a known finding.'),
 'C29': ('cas', 'Tape search: 1-4 files per CAS (88%) or WAV (12%) image (data files via PRINT#/WRITE#, SAVE B/A/P, BSAVE) with lengths biased to 0, 1, k*255+-2, k*256+-1, k*255+164; Session restarted on the same image; files found by name in order or shuffled with deliberate misses; Found/Skipped messages, contents, EOF, BLOAD guard bytes compared with the model; torn/bit-flipped tails must leave earlier files intact and never crash or wedge the device.',
         'Overwriting mid-tape and CHAIN/RUN from tape are not exercised.'),
 'C30': ('display', 'On the display simulation: random graphics statements (PSET PRESET LINE CIRCLE PAINT DRAW PUT VIEW WINDOW GET) with coordinates inside/at/far outside, in every graphics mode of the adapter, with SCREEN ,,apage,vpage; all pages are snapshotted before and after: only the active page may change and only inside the viewport current at the start; the reference display must not change while the active page is hidden; in text modes the statements must trap error 5 and change nothing.',
         'Hidden pages are read with the same expression get_pixels uses (cross-checked on the visible page).'),
 'C35': ('display', 'Two-party search: the engine and a reference display that applies the recorded video signals exactly as the shipped front ends do (real VideoPlugin dispatch), with consumer lag from 0 to 1000 signals (the engine back-pressure loop runs), over PRINT/control codes/DBCS text, scroll bursts, CLS, COLOR, LOCATE, VIEW PRINT, WIDTH, SCREEN mode/page switches, PCOPY, KEY ON/OFF, PALETTE, graphics, typed input with editing keys, on all adapters and several codepages; whenever the backlog is empty canvas == get_pixels and text == get_chars; after suspend/resume a freshly attached display must equal the old one.',
         'Palette RGB values, blink, caption and clipboard signals are not compared.'),
 'C36': ('display', 'Same machine: CSRLIN/POS inside the screen and equal to where the reference placement model says the next character lands; LOCATE r,c puts the cursor there or gives error 5; a landing probe PRINT "x"; must hit the reported cell; SCREEN(r,c) equals the model cell; plain text on a cleared screen follows a deferred-wrap placement model; rows outside an active VIEW PRINT window are unchanged.',
         'Control-code effects and PRINT zones re-sync the model from the engine instead of being judged.'),
 'C41': ('codepage', 'Chunk-schedule search: one byte stream per run (rich in lead/trail/box-drawing bytes) is converted at once, in the seeded chunks and bytewise through Converter.to_unicode, _mark and OutputStreamWrapper.write, with and without box protection, for DBCS + 6 SBCS codepages (quick) or all 48 (thorough): results must be equal, _mark sequences must concatenate to the input; a finite table audit per codepage checks both round-trip clauses.',
         'Chunk-invariance of InputStreamWrapper and equality with a reference splitter go beyond the property and are recorded as observations only.'),
 'C42': ('play', 'Timer-queue search: random MML over consecutive PLAY statements (state persists), foreground and background, with more than 32 notes, sleep(0) jitter, clock jumps and Ctrl-Break; a reference MML interpreter must produce the recorded AUDIO_TONE (frequency, duration) list in every schedule arm; malformed strings give error 5 after a prefix of the reference; bounded liveness: foreground PLAY returns by the queue end (+2 ticks), background PLAY does not block below 32 waiting entries, PLAY stops one tick after Break.',
         'Tandy/PCjr voices and odd number syntaxes are unjudged.'),
 'C44': ('clock', 'Clock-seam search: TIME$/DATE$ set and read with valid, invalid and odd shapes, interleaved with simulated sleeps from 0.3 s to 800 days, starts near midnight, month ends, 29 Feb, 1999/2000 and the 1980/2099 limits, and clock jumps; the BASIC clock is modelled as host clock + offset held as candidate intervals, every read must intersect them; invalid values give error 5 and change nothing; ENVIRON/ENVIRON$ against a dict keyed by upper-case name, os.environ restored after each run.',
         'After a clock jump only no-crash is required until the next full read re-learns the clock.'),
}
for _p, (_m, _text, _note) in _T.items():
    BUILT[_p] = (_m, '4/' + _p, _text + ' Exploration (seeded sampling of histories/schedules/faults) is the level this property can be given by simulation.', _note)

# what the second round of strengthening added to each machine (appended to the level text)
ADDED = {
    'C01': 'Also: a failing printer (flush on Break, at program end, at session close), files bound with bind_file, unattached LPT/COM names, damaged and cut-off program files, memory blocks at the edges of the address space, pending edit prompts, endless sounds across restarts.',
    'C10': 'Also: statements that fail part-way, console INPUT into variables that do not exist yet under memory pressure, suspend/resume between string operations, program-changing statements (MERGE, typed lines, DELETE, RENUM) with variables pointing into program text.',
    'C11': 'Also: multi-name ERASE/DIM that fail part-way followed by the full VARPTR/PEEK/disjointness audit, program-changing statements.',
    'C12': 'Also: a failing LET into an undeclared array (the target is the first use), OPTION BASE after ERASE of every array.',
    'C13': 'Also: memory-limited sessions (the program must still fit after every accepted line, MERGE and LOAD), refused lines leave listing and links unchanged.',
    'C14': 'Also: event traps in every state (defined only, ON, STOP, OFF, inside their handler, with an event pending) at a RENUM issued during a STOP/Break pause and continued with CONT; RENUM rejected part-way.',
    'C15': 'Also: bounded liveness after faults (once faults stop, SAVE then LOAD succeeds), faults on exactly the flush/close of a SAVE.',
    'C16': 'Also: CHAIN from an unprotected loader with COMMON strings into a protected program, SAVE aimed at every device, every sink scanned for tokenised text of the protected program.',
    'C20': 'Also: repeated parameter names (also via DEFtype and sigils), Break and quit inside a function body.',
    'C21': 'Also: errors in the first statement of an event-trap routine, STOP/Break and CONT inside the handler, a handler that evaluates nothing before RESUME n.',
    'C23': 'Also: resets issued from inside an unfinished error handler, event-trap routine, loops and subroutines (by the program or after Ctrl+Break), FIELDed COMMON variables, shared storage of COMMON strings after CHAIN.',
    'C24': 'Also: refused statements (OPEN, SAVE, KILL, NAME on an open file) must leave the host file unchanged; suspend/resume with files open; CR LF at the edges of quoted strings.',
    'C25': 'Also: PUT/GET that fail part-way with implicit record numbers (locks, ACCESS, host faults), statements that reset the FIELD buffers while the file stays open (CHAIN, CLEAR, NEW, typed line, MERGE), program mode, record numbers with a fraction.',
    'C26': 'Also: unnumbered opens (SAVE, LIST, BSAVE) on open files, three file numbers on one file, refused opens leave the file unchanged.',
    'C27': 'Also: the spelling of the mount path (trailing/doubled separators, dot elements, symlinks, relative paths), surplus .., suspend/resume with files open while another party unmounts, renames or removes things, sentinels in the process working directory.',
    'C28': 'Also: directory prefixes with dots, prefix-named sibling directories and a model of the drive cwd audited after every directory statement.',
    'C29': 'Also: tape headers written by other software, suspend/resume while recording, searches that run to the end of the tape followed by writing, long names, statements that fail behind the header, recording over used tape.',
    'C30': 'Also: statements that fail part-way must leave viewport, window, last point and pixels unchanged; VIEW without fill/border draws nothing.',
    'C35': 'Also: Ctrl+Break at a seeded poll inside long drawing and printing statements, line editing of wrapped lines around the VIEW PRINT area, DBCS text.',
    'C36': 'Also: a per-page reference for text pages with PCOPY and page switches, LOCATE that fails (each argument legal/illegal/omitted) followed by a bare line break.',
    'C37': 'Also: Ctrl+Break typed between keys (also in the same poll) with CONT, for INKEY$ and INPUT$ readers.',
    'C38': 'Also: errors at the head of a trap routine and inside the error handler, STOP/CONT, suspend/resume while stopped, trap routines left with RETURN <line>, an error handler abandoned with RUN <line> into a second stage that arms the traps again.',
    'C39': 'Also: signed zeros, two values alive in one expression, RANDOMIZE that fails part-way or is answered at the prompt.',
    'C40': 'Also: suspensions inside waiting INPUT statements (alone and after a boundary suspension; final data compared), sessions with a text-file encoding, APPEND files suspended at position 0 (new or empty file, before the first write).',
    'C41': 'Also: the converter of a resumed session (saved and rebuilt).',
    'C42': 'Also: referenced variables placed at steered addresses, programs with STOP/CONT, state carried across Break/STOP/error, suspend/resume with music queued and time passing.',
    'C44': 'Also: suspend/resume, values set from an operand that blocks while the user types.',
}
for _p, _t in ADDED.items():
    if _p in BUILT:
        _m, _r, _text, _note = BUILT[_p]
        BUILT[_p] = (_m, _r, _text + ' ' + _t, _note)

PURE = {
    'C02': 'pure function of two 16-bit operands: no schedule, clock, fault or history for a simulator to own (needs exhaustive enumeration/SMT)',
    'C03': 'pure function of a bit pattern: not a simulation target',
    'C04': 'pure function of operand bit patterns: not a simulation target',
    'C05': 'pure function of operands: not a simulation target',
    'C06': 'pure function of operands: not a simulation target',
    'C07': 'pure function of a value or a string: not a simulation target',
    'C08': 'pure function of (format, value); the output stream adds nothing',
    'C09': 'pure functions of their arguments; in-place variants are exercised inside C10 histories but no verdict on C09 is drawn',
    'C17': 'pure function of a line and a dialect',
    'C18': 'pure function of the expression text',
    'C19': 'deterministic program semantics against a reference interpreter; no seam involved (traps/Break belong to C38/C40)',
    'C22': 'deterministic program semantics; no seam involved',
    'C31': 'pure function of coordinates and mode',
    'C32': 'pure function of a bitmap and a seed point',
    'C33': 'pure function of the command string and pen state',
    'C34': 'pure address arithmetic; BSAVE/BLOAD move the same bytes',
    'C43': 'pure function of the value',
}

PLANNED = ['C01', 'C10', 'C11', 'C12', 'C13', 'C14', 'C15', 'C16', 'C20', 'C21', 'C23', 'C24', 'C25', 'C26',
           'C27', 'C28', 'C29', 'C30', 'C35', 'C36', 'C37', 'C38', 'C40', 'C41', 'C42', 'C44']


def main():
    checks = []
    engines = {}
    for pid in sorted(BUILT):
        machine, ref, text, note = BUILT[pid]
        low = pid.lower()
        checks.append({
            'property_id': pid,
            'quick_cmd': 'cd /verif && %s checks/%s.py --tier quick' % (PY, low),
            'thorough_cmd': 'cd /verif && %s checks/%s.py --tier thorough' % (PY, low),
            'evidence_file': '/verif/evidence/%s.json' % pid,
            'replay_cmd_template': 'cd /verif && %s checks/replay.py {path}' % PY,
            'engine': machine,
            'level_claimed': {'category': 'exploration', 'text': text, 'design_ref': 'DESIGN.md section ' + ref},
            'level_note': note,
            'technique': 'deterministic simulation with fault injection: seeded search over simulated schedules/'
                         'faults/histories against a reference model, ddmin-minimised replay files',
        })
        engines.setdefault(machine, []).append(pid)
    na = [{'property_id': p, 'reason': r} for p, r in sorted(PURE.items())]
    for p in PLANNED:
        if p not in BUILT:
            na.append({'property_id': p, 'reason': 'not claimed yet: simulation check planned (DESIGN.md section 4) but not built at this commit'})
    na.sort(key=lambda d: d['property_id'])
    manifest = {
        'version': 1,
        'setup_cmd': 'cd /verif && %s tools/setup_check.py' % PY,
        'hooks': {
            'guard': 'PCBASIC_VERIF',
            'enable': 'no source hooks: all seams are checker-side (process-wide time/datetime/open/os patches in '
                      'worker processes, Session.attach of a simulated interface); checks import /repo working tree directly',
            'baseline_off_cmd': 'cd /repo && /venv/bin/python -m pytest -ra -q -p no:cacheprovider --timeout=900 '
                                '--continue-on-collection-errors',
            'source_commits': [],
            'add_only': True,
        },
        'engines': [
            {'name': m, 'path': '/verif/sim/machines/%s.py' % m, 'serves_properties': sorted(ps),
             'kind_free_text': 'simulated-world machine (workload generator + reference model/oracles) on sim/kernel.py'}
            for m, ps in sorted(engines.items())
        ],
        'checks': checks,
        'not_applicable': na,
        'notes': 'Technique: deterministic simulation with fault injection. See DESIGN.md. VERIF_SEED selects the seed; '
                 'VERIF_BUDGET_S bounds the thorough tier (default 600 s per property).',
    }
    with open(os.path.join(VERIF, 'MANIFEST.json'), 'w') as f:
        json.dump(manifest, f, indent=1)
    print('MANIFEST.json: %d checks, %d not claimed' % (len(checks), len(na)))


if __name__ == '__main__':
    main()
