#!/bin/bash
# usage: seedcheck.sh <seeded-id> [check.py] -- run a check against a copy of /repo with the seeded patch
ID=$1; CHECK=${2:-}
cd /verif
PROP=$(python3 -c "import json;print(json.load(open('seeded/$ID/meta.json'))['property'])")
[ -z "$CHECK" ] && CHECK=checks/$(echo $PROP | tr A-Z a-z).py
D=$(mktemp -d /dev/shm/pcbseed.XXXXXX); trap 'rm -rf "$D"' EXIT
rsync -a --exclude .git --exclude __pycache__ --exclude tests --exclude docs /repo/ "$D/"
( cd "$D" && patch -p1 -s < /verif/seeded/$ID/patch.diff ) || { echo "patch failed"; exit 3; }
VERIF_REPO="$D" VERIF_REPLAY_DIR="$D/replays" VERIF_MAX_REPORT=4 timeout 2400 /venv/bin/python $CHECK --no-evidence "${@:3}" | grep -E "^violation|^VIOLATION|^further|HARNESS|runs," | cut -c1-220
