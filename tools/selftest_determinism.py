#!/usr/bin/env python
"""
Determinism self-test: for N seeds of a machine, generate+run each case twice in this process
(second pass in reverse order), then once more in fresh interpreters under other PYTHONHASHSEEDs,
and compare the per-run event-log digests and violation signatures.

usage: selftest_determinism.py <machine> <prop> [N] [--tier quick|thorough]
"""
import os
import sys
import json
import random
import subprocess

VERIF = os.path.dirname(os.path.dirname(os.path.abspath(__file__)))
sys.path.insert(0, VERIF)
sys.dont_write_bytecode = True


def digests(mname, prop, n, tier, reverse=False, base=0):
    from sim import kernel as K
    from sim import runner
    K.install_seams()
    m = runner.load_machine(mname)
    out = {}
    order = list(range(n))
    if reverse:
        order.reverse()
    for i in order:
        seed = K.derive_seed(prop + ':selftest', base, i)
        case = m.gen(random.Random(seed), tier, prop)
        case['seed'] = seed
        res = runner.run_case(m, case)
        out[i] = [res['digest'], res['status'], sorted(v['prop'] + ':' + v['sig'] for v in res['violations'])]
    return out


def main():
    args = [a for a in sys.argv[1:] if not a.startswith('--')]
    tier = 'quick'
    if '--tier' in sys.argv:
        tier = sys.argv[sys.argv.index('--tier') + 1]
        args.remove(tier)
    mname, prop = args[0], args[1]
    n = int(args[2]) if len(args) > 2 else 60
    if '--child' in sys.argv:
        print(json.dumps(digests(mname, prop, n, tier)))
        return 0
    a = digests(mname, prop, n, tier)
    b = digests(mname, prop, n, tier, reverse=True)
    bad = [i for i in a if a[i] != b[i]]
    if bad:
        print('NONDETERMINISTIC in-process: runs %s' % bad[:10])
        for i in bad[:3]:
            print(i, a[i], b[i])
        return 1
    for hs in ('1234', '99'):
        env = dict(os.environ, PYTHONHASHSEED=hs, PYTHONDONTWRITEBYTECODE='1')
        p = subprocess.run([sys.executable, os.path.abspath(__file__), mname, prop, str(n), '--tier', tier, '--child'],
                           capture_output=True, env=env, timeout=3600)
        if p.returncode != 0:
            print('child failed:', p.stderr.decode()[-2000:])
            return 2
        c = {int(k): v for k, v in json.loads(p.stdout.decode().strip().splitlines()[-1]).items()}
        bad = [i for i in a if a[i] != c[i]]
        if bad:
            print('NONDETERMINISTIC across interpreters (PYTHONHASHSEED=%s): runs %s' % (hs, bad[:10]))
            for i in bad[:3]:
                print(i, a[i], c[i])
            return 1
    nv = sum(1 for i in a if a[i][2])
    print('deterministic: %s/%s %d seeds x (2 in-process + 2 fresh interpreters); %d runs with violations; statuses %s' % (
        mname, prop, n, nv, sorted(set(v[1] for v in a.values()))))
    return 0


if __name__ == '__main__':
    sys.exit(main())
