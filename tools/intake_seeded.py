#!/usr/bin/env python3
"""
Take over one adversarial change produced in a scratch worktree and confirm it independently.

usage: intake_seeded.py <worktree> <n> [--name <id>] [--no-check] [--reuse]

Copies <worktree>/ADV/<n>/{patch.diff,demo.py,meta.json} to /verif/seeded/<id>/ and, on scratch copies of
/repo's current working tree under /dev/shm (removed afterwards):
  1. demo.py on the unchanged copy must exit 0;
  2. patch.diff must apply; the pinned test suite must still pass every test of BASELINE.json's stable_pass
     (the timing-sensitive test_interactive_shell is retried once);
  3. demo.py on the changed copy must exit non-zero;
  4. the property's quick check is run against the changed copy (VERIF_REPO): caught / missed.
Everything observed is written into /verif/seeded/<id>/meta.json under "confirmed".
"""
import os
import re
import sys
import json
import shutil
import subprocess
import tempfile

VERIF = os.path.dirname(os.path.dirname(os.path.abspath(__file__)))
PY = '/venv/bin/python'


def sh(cmd, **kw):
    return subprocess.run(cmd, capture_output=True, text=True, **kw)


def copy_repo(dst):
    # 24 = files vanished while copying (a test run in /repo cleaning up its output): harmless
    rc = subprocess.call(['rsync', '-a', '--exclude', '.git', '--exclude', '__pycache__', '--exclude', 'tests/unit/output',
                          '/repo/', dst + '/'])
    if rc not in (0, 24):
        raise RuntimeError('rsync failed: %d' % rc)


def run_tests(repo):
    xml = os.path.join(repo, 'junit.xml')
    sh([PY, '-m', 'pytest', '-q', '-p', 'no:cacheprovider', '--timeout=900', '--continue-on-collection-errors',
        '--junitxml=' + xml], cwd=repo, timeout=1800)
    import xml.etree.ElementTree as ET
    passed = set()
    for tc in ET.parse(xml).getroot().iter('testcase'):
        if not any(ch.tag in ('failure', 'error', 'skipped') for ch in tc):
            passed.add('%s::%s' % (tc.get('classname'), tc.get('name')))
    return passed


def run_demo(demo, wt, repo):
    src = open(demo).read().replace(wt, repo)
    path = os.path.join(repo, '_demo.py')
    open(path, 'w').write(src)
    p = sh([PY, path], cwd=repo, timeout=900)
    return p.returncode, (p.stdout + p.stderr)[-600:]


def main():
    wt, n = sys.argv[1].rstrip('/'), sys.argv[2]
    src = os.path.join(wt, 'ADV', n)
    if '--reuse' in sys.argv:
        # the worktree is gone: confirm again from what was copied to /verif/seeded/<name> earlier
        name = sys.argv[sys.argv.index('--name') + 1]
        dst = os.path.join(VERIF, 'seeded', name)
        meta = json.load(open(os.path.join(dst, 'meta.json')))
        prop = meta['property']
    else:
        meta = json.load(open(os.path.join(src, 'meta.json')))
        prop = meta['property']
        name = sys.argv[sys.argv.index('--name') + 1] if '--name' in sys.argv else '%s-adv%s-%s' % (prop, n, os.path.basename(wt)[-3:])
        dst = os.path.join(VERIF, 'seeded', name)
        os.makedirs(dst, exist_ok=True)
        for f in ('patch.diff', 'demo.py'):
            shutil.copy(os.path.join(src, f), os.path.join(dst, f))
        meta['worktree'] = wt
        json.dump(meta, open(os.path.join(dst, 'meta.json'), 'w'), indent=1)
    baseline = set(json.load(open('/root/.vp/BASELINE.json'))['stable_pass'])
    conf = {}
    clean = tempfile.mkdtemp(prefix='pcbseed-clean.', dir='/dev/shm')
    mut = tempfile.mkdtemp(prefix='pcbseed-mut.', dir='/dev/shm')
    try:
        copy_repo(clean)
        copy_repo(mut)
        rc, out = run_demo(os.path.join(dst, 'demo.py'), wt, clean)
        conf['demo_unchanged_exit'] = rc
        conf['demo_unchanged_tail'] = out[-200:]
        p = sh(['git', 'apply', '--unsafe-paths', '--directory=' + mut, os.path.join(dst, 'patch.diff')], cwd='/')
        if p.returncode != 0:
            p = subprocess.run(['patch', '-p1', '-s', '-d', mut], stdin=open(os.path.join(dst, 'patch.diff')), capture_output=True, text=True)
        conf['patch_applies'] = p.returncode == 0
        if not conf['patch_applies']:
            conf['patch_error'] = (p.stdout + p.stderr)[-300:]
        else:
            passed = run_tests(mut)
            missing = sorted(baseline - passed)
            tries = 0
            while missing and all('test_interactive_shell' in m for m in missing) and tries < 4:
                # timing-sensitive under load (fails one run in three on the unchanged tree too): run it alone
                tries += 1
                p1 = sh([PY, '-m', 'pytest', '-q', '-p', 'no:cacheprovider', '--timeout=900',
                         'tests/unit/test_dos.py::DosTest::test_interactive_shell'], cwd=mut, timeout=900)
                if p1.returncode == 0:
                    passed |= set(missing)
                    missing = []
            conf['baseline_tests_passing'] = len(baseline & passed)
            conf['baseline_tests_missing'] = missing[:10]
            rc, out = run_demo(os.path.join(dst, 'demo.py'), wt, mut)
            conf['demo_changed_exit'] = rc
            conf['demo_changed_tail'] = out[-300:]
            if '--no-check' not in sys.argv:
                env = dict(os.environ, VERIF_REPO=mut, VERIF_REPLAY_DIR=os.path.join(mut, 'replays'), VERIF_MAX_REPORT='4')
                q = subprocess.run([PY, os.path.join(VERIF, 'checks', prop.lower() + '.py'), '--tier', 'quick', '--no-evidence'],
                                   capture_output=True, text=True, env=env, cwd=VERIF, timeout=2400)
                sigs = re.findall(r'^violation: (\S+)', q.stdout, re.M) + re.findall(r'^further violation class \(not minimised\): (\S+)', q.stdout, re.M)
                conf['check_exit'] = q.returncode
                conf['check_signatures'] = sigs[:8]
                conf['check_result'] = 'caught' if q.returncode == 1 and 'VIOLATION property=' in q.stdout else (
                    'missed' if q.returncode == 0 else 'error')
                m = re.search(r'(\d+) runs,', q.stdout)
                conf['check_runs'] = int(m.group(1)) if m else None
    finally:
        shutil.rmtree(clean, ignore_errors=True)
        shutil.rmtree(mut, ignore_errors=True)
    conf['valid'] = bool(conf.get('patch_applies') and conf.get('demo_unchanged_exit') == 0 and conf.get('demo_changed_exit')
                         and not conf.get('baseline_tests_missing'))
    meta['confirmed'] = conf
    meta['id'] = name
    json.dump(meta, open(os.path.join(dst, 'meta.json'), 'w'), indent=1)
    print(json.dumps(conf, indent=1))


if __name__ == '__main__':
    main()
