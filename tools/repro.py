#!/usr/bin/env python
"""Quick probe: run BASIC lines (args) in a default Session inside a World; print outputs/tracebacks."""
import sys, os, traceback
sys.path.insert(0, os.path.dirname(os.path.dirname(os.path.abspath(__file__))))
from sim import kernel as K
K.install_seams()
from sim.basicdrv import Driver, EngineCrash
w = K.World({})
kw = {}
args = sys.argv[1:]
while args and '=' in args[0] and args[0].startswith('--'):
    k, v = args.pop(0)[2:].split('=', 1)
    kw[k] = eval(v)
with w:
    d = Driver(w, **kw)
    for line in args:
        try:
            r = d.exec(line.encode('latin-1'))
            print('%-40s -> %r' % (line, r.out))
        except EngineCrash as e:
            print('%-40s -> CRASH %s\n%s' % (line, e.signature, e.tb[-1500:]))
            break
