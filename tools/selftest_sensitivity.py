#!/usr/bin/env python3
"""
Sensitivity self-test: apply every patch under /verif/mutants (and /verif/seeded/*/patch.diff) to a scratch
copy of /repo, run the quick check of the property named by the patch file's prefix against the copy, and
record whether it exits 1 with a VIOLATION line. Results: /verif/mutants/RESULTS.json and RESULTS.md.

usage: selftest_sensitivity.py [--only PREFIX] [--tier quick] [--jobs 1]
"""
import os, sys, re, json, glob, time, shutil, subprocess, tempfile

VERIF = os.path.dirname(os.path.dirname(os.path.abspath(__file__)))
REPO = '/repo'
PY = '/venv/bin/python'


def run_one(patch, prop, tier, extra_env=None):
    d = tempfile.mkdtemp(prefix='pcbmut.', dir='/dev/shm')
    try:
        subprocess.check_call(['rsync', '-a', '--exclude', '.git', '--exclude', '__pycache__', '--exclude', 'tests',
                               '--exclude', 'docs', REPO + '/', d + '/'])
        p = subprocess.run(['patch', '-p1', '-s', '-d', d], stdin=open(patch), capture_output=True)
        if p.returncode != 0:
            return {'status': 'patch-failed', 'detail': (p.stdout + p.stderr).decode()[-300:]}
        env = dict(os.environ, VERIF_REPO=d, VERIF_REPLAY_DIR=os.path.join(d, 'replays'), VERIF_MAX_REPORT='4')
        env.update(extra_env or {})
        t0 = time.time()
        try:
            q = subprocess.run([PY, os.path.join(VERIF, 'checks', prop.lower() + '.py'), '--tier', tier, '--no-evidence'],
                               capture_output=True, env=env, cwd=VERIF, timeout=1500)
        except subprocess.TimeoutExpired:
            return {'status': 'timeout'}
        out = q.stdout.decode('utf-8', 'replace')
        sigs = re.findall(r'^violation: (\S+)', out, re.M) + re.findall(r'^further violation class \(not minimised\): (\S+)', out, re.M)
        viol = len(re.findall(r'^VIOLATION ', out, re.M))
        status = 'caught' if (q.returncode == 1 and viol) else 'missed' if q.returncode == 0 else 'error-exit-%d' % q.returncode
        m = re.search(r'(\d+) runs,', out)
        return {'status': status, 'signatures': sigs[:6], 'runs': int(m.group(1)) if m else None,
                'wall_s': round(time.time() - t0, 1), 'tail': out[-400:] if status.startswith('error') else ''}
    finally:
        shutil.rmtree(d, ignore_errors=True)


# other checks to try when the property's own check stays quiet (a change can break more than one property)
ALSO = {
    'seeded/C21-adv1': ['C38'], 'seeded/C21-adv2': ['C38'], 'seeded/C01-adv2': ['C29'], 'seeded/C24-adv2': ['C40'],
    'seeded/C36-adv1': ['C35'], 'C01-revert-fix-57ad034a': ['C10'],
    'seeded/C11-adv3': ['C23'], 'seeded/C25-adv4': ['C23'],
    'C16-revert-fix-dd140cab': ['C13', 'C01'], 'C16-revert-fix-d554c71b': ['C01'], 'C16-revert-fix-4ee0a012': ['C15'],
    'C12-revert-fix-384cefb8': ['C10'], 'C12-revert-fix-44fbce60': ['C10'], 'C15-revert-fix-7353c936': ['C01', 'C13'],
    'C21-revert-fix-d2835d9d': ['C01'], 'C35-revert-fix-19f04add': ['C36'], 'C01-revert-fix-8b2bac9f': ['C36'],
    'C10-revert-fix-51ef9ebc': ['C11'], 'C40-revert-fix-634b08a5': ['C01', 'C24'],
}


def job(args):
    name, patch, prop, tier, workers = args
    env = {'VERIF_WORKERS': str(workers)}
    r = run_one(patch, prop, tier, env)
    r['property'] = prop
    if r['status'] != 'caught':
        for other in ALSO.get(name, []):
            r2 = run_one(patch, other, tier, env)
            r.setdefault('other_checks', {})[other] = {k: r2.get(k) for k in ('status', 'signatures', 'runs')}
    return name, r


def main():
    only = None
    tier = 'quick'
    jobs = 1
    if '--only' in sys.argv:
        only = sys.argv[sys.argv.index('--only') + 1]
    if '--jobs' in sys.argv:
        jobs = int(sys.argv[sys.argv.index('--jobs') + 1])
    patches = sorted(glob.glob(os.path.join(VERIF, 'mutants', '*.patch')))
    for sd in sorted(glob.glob(os.path.join(VERIF, 'seeded', '*'))):
        pf = os.path.join(sd, 'patch.diff')
        if os.path.exists(pf):
            patches.append(pf)
    resfile = os.path.join(VERIF, 'mutants', 'RESULTS.json')
    try:
        results = json.load(open(resfile))
    except Exception:
        results = {}
    if not only:
        results = {}
    todo = []
    for patch in patches:
        if patch.endswith('patch.diff'):
            name = 'seeded/' + os.path.basename(os.path.dirname(patch))
            meta = json.load(open(os.path.join(os.path.dirname(patch), 'meta.json')))
            prop = meta['property']
        else:
            name = os.path.basename(patch)[:-6]
            prop = name.split('-')[0]
        if only and not name.startswith(only):
            continue
        if not os.path.exists(os.path.join(VERIF, 'checks', prop.lower() + '.py')):
            results[name] = {'status': 'no-check', 'property': prop}
            continue
        todo.append((name, patch, prop, tier, max(2, (os.cpu_count() or 4) // jobs)))
    from concurrent.futures import ThreadPoolExecutor
    with ThreadPoolExecutor(jobs) as ex:
        for name, r in ex.map(job, todo):
            results[name] = r
            print('%-60s %-8s %s %s %s' % (name, r['status'], r.get('runs'), ','.join(r.get('signatures', [])[:3]),
                                          {k: v['status'] for k, v in r.get('other_checks', {}).items()} or ''), flush=True)
            json.dump(results, open(resfile, 'w'), indent=1, sort_keys=True)
    # markdown
    lines = ['# Sensitivity results (generated by tools/selftest_sensitivity.py)', '',
             '| change | property | result | runs | first signatures | other checks |', '|---|---|---|---|---|---|']
    for name in sorted(results):
        r = results[name]
        oc = '; '.join('%s: %s (%s)' % (k, v['status'], ', '.join((v.get('signatures') or [])[:2])) for k, v in r.get('other_checks', {}).items())
        lines.append('| %s | %s | %s | %s | %s | %s |' % (name, r.get('property'), r['status'], r.get('runs'),
                                                     ', '.join(r.get('signatures', [])[:3]), oc))
    open(os.path.join(VERIF, 'mutants', 'RESULTS.md'), 'w').write('\n'.join(lines) + '\n')
    bad = [n for n, r in results.items() if r['status'] not in ('caught',)]
    print('%d changes, %d not caught by their own check: %s' % (len(results), len(bad), bad))


if __name__ == '__main__':
    main()
