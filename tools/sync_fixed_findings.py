#!/usr/bin/env python3
"""
Bring the `fixed` entries of /verif/known_findings.json up to date with the `fix:` commits in /repo.

For every fix commit that has no entry yet, one is added: the property is that of the reverse patch
mutants/<prop>-revert-fix-<hash>*.patch, the signature is the first one the sensitivity run recorded for
that reverse patch (mutants/RESULTS.json). Existing entries (hand-written, with witnesses) are kept.
Fixed entries suppress nothing; they are the record asked for by the task brief.
Run by hand, never by a check.
"""
import os
import re
import glob
import json
import subprocess

VERIF = os.path.dirname(os.path.dirname(os.path.abspath(__file__)))
BASE = 'd1324be6'


def main():
    kf_path = os.path.join(VERIF, 'known_findings.json')
    kf = json.load(open(kf_path))
    try:
        res = json.load(open(os.path.join(VERIF, 'mutants', 'RESULTS.json')))
    except Exception:
        res = {}
    have = ' '.join(e.get('commit', '') for e in kf['findings'] if e.get('status') == 'fixed')
    log = subprocess.check_output(['git', '-C', '/repo', 'log', '--reverse', '--format=%h %s', BASE + '..HEAD'], text=True)
    added = 0
    for line in log.splitlines():
        h, _, subj = line.partition(' ')
        if not subj.startswith('fix:'):
            continue
        if h[:7] in have:
            continue
        pats = glob.glob(os.path.join(VERIF, 'mutants', '*-revert-fix-*%s*.patch' % h[:8]))
        if pats:
            name = os.path.basename(pats[0])[:-6]
            prop = name.split('-')[0]
            r = res.get(name, {})
            sig = (r.get('signatures') or ['(see the reverse patch mutants/%s.patch)' % name])[0]
            if r.get('status') != 'caught':
                for other, v in (r.get('other_checks') or {}).items():
                    if v.get('status') == 'caught':
                        prop, sig = other, (v.get('signatures') or [sig])[0]
                        break
        else:
            prop, sig = 'C01', '(no reverse patch kept)'
        kf['findings'].append({
            'property': prop, 'signature': sig, 'status': 'fixed', 'commit': h,
            'what': 'fixed: property=%s %s %s' % (prop, h, subj[4:].strip()),
        })
        added += 1
    json.dump(kf, open(kf_path, 'w'), indent=1)
    print('%d fixed entries added, %d findings in all' % (added, len(kf['findings'])))


if __name__ == '__main__':
    main()
