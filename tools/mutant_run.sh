#!/bin/bash
# usage: tools/mutant_run.sh <patch-file> <check-script> [check args...]
# Copies /repo's working tree to tmpfs, applies the patch, runs the check against the copy
# (VERIF_REPO), removes the copy. Exit status = the check's. Evidence is not written.
set -u
PATCH=$(readlink -f "$1"); shift
CHECK=$1; shift
D=$(mktemp -d /dev/shm/pcbmut.XXXXXX)
trap 'rm -rf "$D"' EXIT
rsync -a --exclude .git --exclude __pycache__ --exclude tests --exclude docs /repo/ "$D/"
( cd "$D" && patch -p1 -s < "$PATCH" ) || { echo "patch failed"; exit 3; }
cd /verif && VERIF_REPO="$D" VERIF_REPLAY_DIR="$D/replays" VERIF_MAX_REPORT=${VERIF_MAX_REPORT:-6} timeout 1200 /venv/bin/python "$CHECK" --no-evidence "$@"
