#!/bin/bash
# usage: tools/run_all.sh [quick|thorough] [props...]   - runs the registered checks one after the other
TIER=${1:-quick}; shift
cd /verif
PROPS=${@:-$(python3 -c "import json;print(' '.join(c['property_id'] for c in json.load(open('MANIFEST.json'))['checks']))")}
for p in $PROPS; do
  low=$(echo $p | tr A-Z a-z)
  s=$(date +%s)
  /venv/bin/python checks/$low.py --tier $TIER > /dev/shm/runall-$p.log 2>&1
  rc=$?
  e=$(date +%s)
  echo "$p exit=$rc wall=$((e-s))s $(grep -c '^VIOLATION' /dev/shm/runall-$p.log) violations, $(grep -c '^KNOWN-FINDING' /dev/shm/runall-$p.log) known; $(tail -1 /dev/shm/runall-$p.log | cut -c1-90)"
done
