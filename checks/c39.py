from _entry import main
main('C39', 'rnd')
