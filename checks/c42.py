from _entry import main
main('C42', 'play')
