from _entry import main
main('C30', 'display')
