from _entry import main
main('C25', 'files')
