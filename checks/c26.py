from _entry import main
main('C26', 'files')
