from _entry import main
main('C20', 'errfn')
