from _entry import main
main('C24', 'files')
