from _entry import main
main('C29', 'cas')
