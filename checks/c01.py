from _entry import main
main('C01', 'chaos')
