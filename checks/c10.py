from _entry import main
main('C10', 'mem')
