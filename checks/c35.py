from _entry import main
main('C35', 'display')
