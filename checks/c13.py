from _entry import main
main('C13', 'prog')
