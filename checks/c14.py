from _entry import main
main('C14', 'prog')
