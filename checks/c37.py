from _entry import main
main('C37', 'kbd')
