from _entry import main
main('C40', 'resume')
