"""Shared entry point for checks/cNN.py (kept tiny: all logic is in sim.runner)."""
import os
import sys

VERIF = os.path.dirname(os.path.dirname(os.path.abspath(__file__)))
if VERIF not in sys.path:
    sys.path.insert(0, VERIF)

# a fixed hash seed and no bytecode litter in /repo; re-exec once if needed
if os.environ.get('PYTHONHASHSEED') != '0':
    os.environ['PYTHONHASHSEED'] = '0'
    os.environ['PYTHONDONTWRITEBYTECODE'] = '1'
    os.execv(sys.executable, [sys.executable] + sys.argv)


def main(prop, machine):
    from sim.runner import check_main
    sys.exit(check_main(prop, machine))
