from _entry import main
main('C12', 'mem')
