from _entry import main
main('C16', 'save')
