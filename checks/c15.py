from _entry import main
main('C15', 'save')
