from _entry import main
main('C41', 'codepage')
