from _entry import main
main('C44', 'clock')
