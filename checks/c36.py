from _entry import main
main('C36', 'display')
