from _entry import main
main('C21', 'errfn')
