"""Replay a violation file: exit 1 + VIOLATION line if it reproduces exactly, 0 if not."""
import sys
import _entry
from sim.runner import replay_main
sys.exit(replay_main(sys.argv[1]))
