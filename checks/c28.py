from _entry import main
main('C28', 'fs')
