from _entry import main
main('C11', 'mem')
