from _entry import main
main('C27', 'fs')
