from _entry import main
main('C38', 'events')
