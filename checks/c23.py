from _entry import main
main('C23', 'chain')
